#!/bin/bash
# Seeded-mutant control: apply a python substitution (old -> new, exactly once) to a /repo file, check it still
# passes the crate's own tests, run the given checks, restore. usage: mutant_test.sh <file> <old> <new> Cxx...
set -u
F="$1"; OLD="$2"; NEW="$3"; shift 3
cd /repo || exit 2
if ! git diff --quiet; then echo "/repo working tree not clean" >&2; exit 2; fi
trap 'git -C /repo checkout -- . ' EXIT
python3 - "$F" "$OLD" "$NEW" <<'PY' || exit 2
import sys
f,old,new=sys.argv[1:4]
s=open(f).read()
if s.count(old)!=1:
    print("mutant: pattern occurs",s.count(old),"times"); sys.exit(1)
open(f,'w').write(s.replace(old,new))
PY
t=$(cargo test --offline 2>&1 | grep "test result" | head -1)
echo "== mutant $F: '$OLD' -> '$NEW' :: crate tests: $t"
for p in "$@"; do
  out=$(/verif/check "$p" quick 2>&1); rc=$?
  echo "   $p -> exit $rc  $(echo "$out" | grep -A1 -m1 VIOLATION | tail -1 | cut -c1-200)"
done
