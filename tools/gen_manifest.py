#!/usr/bin/env python3
"""Regenerates /verif/MANIFEST.json from the table below (keeps it schema-valid)."""
import json, subprocess, sys

BUILT = {
 "C01": ("tables", "checksum monitor: arithmetic byte-sum oracle on the recorded output stream after every prefix of generated builder histories",
         "Held on every observed prefix of ~44k (quick) / ~660k (thorough) generated builder programs over all 20 checksummed table kinds plus RSDP, including empty histories, repeated/diagonal cells and sweeps across the 0xFF/0xFFFF count and length carries; oracle is pure arithmetic and cannot be wrong. Not a proof: unbounded histories are sampled, carries at 2^24/2^32 are not reached.",
         "trusted: the harness's recording sink and the program generator; in-domain arguments only (C18 covers refusal)"),
 "C02": ("tables", "length monitor: Length field vs byte count of the recording sink after every prefix",
         "Same executions as C01; oracle is the sink's own byte count. Known finding F10 (RDPAS 17 bytes vs declared 16) is matched by an exact deviation model only.",
         "trusted: recording sink; Sdt writes into bytes 4..8 are the caller supplying Length and are judged by C13"),
 "C03": ("tables", "independent specification-derived body walker + summary-field checks on every observed prefix",
         "Walker written from the specifications' first-entry offsets and type/length field positions; visits must equal the added entries (offset, length, type) and every count/offset/string-length field must agree with the walk.",
         "trusted: walker's reading of ACPI 6.5 / CXL 3.0 / RISC-V RHCT-RIMT-RQSC layouts (Appendix A of DESIGN.md)"),
 "C04": ("tables", "reference-model monitor: byte-for-byte comparison with an independent offset-addressed reference encoder",
         "Every observed image equals the encoding produced by a reference encoder written from the specifications (Appendix A), for boundary-biased and distinguishing argument values, all enum variants and Option shapes.",
         "trusted: Appendix A layouts; crate's documented free choices (revisions, creator id, VIOT endpoint start, RIMT draft layout) pinned and listed as assumptions"),
 "C05": ("tables", "handle monitor: handles read back by probe serialisation vs offsets found by the independent walker; reference fields resolved in every image",
         "Every returned handle equals the offset at which the reference/walker places that node, for random interleavings of handle-returning and other adds; every reference field resolves to a node of the expected type in each intermediate and final image.",
         "trusted: probe objects expose the handle value unchanged (IdMapping, MmioEndpoint, HartInfoNode, CacheNodeBuilder, ProcessorNode)"),
 "C14": ("tables+aml", "differential monitor across six sink implementations, repeated serialisation, raw in-memory form and u8sum",
         "Each generated object is serialised twice and into Vec, byte-only, all-override, Checksum, Sdt and PackageBuilder sinks; streams must be identical; as_bytes() must equal the serialised stream for every Aml+IntoBytes type; u8sum must equal the arithmetic sum.",
         "trusted: harness sinks; Sdt sink skipped above 6 KB (quadratic)"),
}

def main():
    props = [json.loads(l) for l in open('/verif/properties.jsonl')]
    commits = subprocess.run("git -C /repo log --format=%H --grep='^verif hook'", shell=True, capture_output=True, text=True).stdout.split()
    checks, na = [], []
    for p in props:
        pid = p['id']
        if pid in BUILT:
            eng, tech, text, note = BUILT[pid]
            checks.append({
                "property_id": pid,
                "quick_cmd": f"./check {pid} quick",
                "thorough_cmd": f"./check {pid} thorough",
                "evidence_file": f"/verif/evidence/{pid}.json",
                "replay_cmd_template": f"./check {pid} --replay {{path}}",
                "engine": eng,
                "level_claimed": {"category": "exploration", "text": text, "design_ref": f"DESIGN.md §3 {pid}"},
                "level_note": note,
                "technique": "runtime monitoring: " + tech,
            })
        else:
            na.append({"property_id": pid, "reason": "monitor not built yet in this round (planned: see DESIGN.md §3); runtime monitoring applies"})
    m = {
        "version": 1,
        "setup_cmd": "./setup.sh",
        "hooks": {
            "guard": "rust_vmm_acpi_tables_verif",
            "enable": "RUSTFLAGS=\"--cfg rust_vmm_acpi_tables_verif\" (set by ./check and ./setup.sh)",
            "baseline_off_cmd": "cd /repo && cargo test --workspace --no-fail-fast --offline",
            "source_commits": commits,
            "add_only": True,
        },
        "engines": [
            {"name": "tables", "path": "harness/src/engines/tables_engine.rs", "serves_properties": ["C01", "C02", "C03", "C04", "C05", "C14"],
             "kind_free_text": "executes generated builder programs against the real crate, observes every prefix through recording sinks, judges with arithmetic / walker / reference-encoder oracles"},
        ],
        "checks": checks,
        "not_applicable": na,
        "notes": "All checks are runtime monitors over executions of the real crate (harness/ depends on /repo by path and is rebuilt by ./check). exit 2 + INCONCLUSIVE is used for build/oracle problems and is never a violation.",
    }
    json.dump(m, open('/verif/MANIFEST.json', 'w'), indent=1)
    print("checks:", len(checks), "not_applicable:", len(na))

main()
