#!/usr/bin/env python3
"""Regenerates /verif/MANIFEST.json from the table below (keeps it schema-valid)."""
import json, subprocess, sys

BUILT = {
 "C01": ("tables", "checksum monitor: arithmetic byte-sum oracle on the recorded output stream after every prefix of generated builder histories",
         "Held on every observed prefix of ~110k (quick) / ~660k (thorough) generated builder programs over all 20 checksummed table kinds plus RSDP, including empty histories, repeated/diagonal cells and sweeps across the 0xFF/0xFFFF count and length carries; oracle is pure arithmetic and cannot be wrong. Not a proof: unbounded histories are sampled, carries at 2^24/2^32 are not reached.",
         "trusted: the harness's recording sink and the program generator; in-domain arguments only (C18 covers refusal)"),
 "C02": ("tables", "length monitor: Length field vs byte count of the recording sink after every prefix",
         "Same executions as C01; oracle is the sink's own byte count. Known finding F10 (RDPAS 17 bytes vs declared 16) is matched by an exact deviation model only.",
         "trusted: recording sink; Sdt writes into bytes 4..8 are the caller supplying Length and are judged by C13"),
 "C03": ("tables", "independent specification-derived body walker + summary-field checks on every observed prefix",
         "Walker written from the specifications' first-entry offsets and type/length field positions; visits must equal the added entries (offset, length, type) and every count/offset/string-length field must agree with the walk.",
         "trusted: walker's reading of ACPI 6.5 / CXL 3.0 / RISC-V RHCT-RIMT-RQSC layouts (Appendix A of DESIGN.md)"),
 "C04": ("tables", "reference-model monitor: byte-for-byte comparison with an independent offset-addressed reference encoder",
         "Every observed image equals the encoding produced by a reference encoder written from the specifications (Appendix A), for boundary-biased and distinguishing argument values, all enum variants and Option shapes; also GAS, GenericAddress, the generic error status block and the generic error data entry.",
         "trusted: Appendix A layouts; crate's documented free choices (revisions, creator id, VIOT endpoint start, RIMT draft layout) pinned and listed as assumptions"),
 "C05": ("tables", "handle monitor: handles read back by probe serialisation vs offsets found by the independent walker; reference fields resolved in every image",
         "Every returned handle equals the offset at which the reference/walker places that node, for random interleavings of handle-returning and other adds; every reference field resolves to a node of the expected type in each intermediate and final image.",
         "trusted: probe objects expose the handle value unchanged (IdMapping, MmioEndpoint, HartInfoNode, CacheNodeBuilder, ProcessorNode)"),
 "C14": ("tables+aml", "differential monitor across six sink implementations, repeated serialisation, raw in-memory form and u8sum",
         "Each generated object is serialised twice and into Vec, byte-only, all-override, Checksum, Sdt and PackageBuilder sinks; streams must be identical; as_bytes() must equal the serialised stream for every Aml+IntoBytes type (table entries, whole tables, GAS, notification structure, RQSC resource ids, FACS); u8sum must equal the arithmetic sum; thorough adds a Miri stage.",
         "trusted: harness sinks; the generic-table sink is fed byte-wise only for objects up to 1.5 KB (its per-byte checksum is quadratic), larger objects reach it through one append; six-sink comparison of AML objects up to 6 KB"),

 "C06": ("aml", "online trace checker: independent ACPI-grammar parser over the emitted byte stream, compared with the canonicalised term tree",
         "Random term trees over all 45 exported constructors (native and pre-serialised construction), every length-prefixed kind swept across the 63/64 and 4095/4096 (2^20 in thorough) boundaries singly and nested; the parser consumes all bytes, every PkgLength window is filled exactly, and the recovered tree equals the built one.",
         "trusted: parser's opcode table (ACPI 6.5 §20.2, self-tested against iasl vectors); invocation arity supplied via reserved CALn names"),
 "C07": ("scalar", "exhaustive execution of the real PkgLength encoder through the cfg-guarded hook + specification decoder; call-site ties by building real objects",
         "All 2^28 exclusive lengths and all self-inclusive content lengths below the 2^28 limit are driven through the crate's encoder and decoded by the specification rule (lead-byte format, minimal width); each of the 15 public length-prefixed constructors and both field-entry forms is tied to it over swept sizes.",
         "trusted: hook returns the private encoder's result unchanged; spec decoder"),
 "C08": ("scalar", "exhaustive / boundary execution of the integer encoders through every carrier type vs an independent specification encoder",
         "Every u8 and u16 value through all wider carriers; u32 exhaustively in thorough; u64/usize at all width boundaries, single-bit and byte-fill patterns and random values.",
         "trusted: 15-line specification encoder/decoder"),
 "C09": ("scalar", "specification NameString encoder/decoder vs Path::new output; refusal monitor for malformed strings; parse-back of the 11 path-taking constructors",
         "Segment counts 1..=255 x rooted, each character position over its alphabet, random combinations, malformed strings at every position (must panic).",
         "trusted: spec NameString rule; AML name alphabet as the domain"),
 "C10": ("scalar", "reference descriptor encoder (ACPI 6.5 §6.4, self-tested against iasl output) + descriptor walker + buffer framing check",
         "Every descriptor form with boundary-biased values and all flag combinations; templates of 0..n descriptors with payload sizes across 63/64, 255/256, 4095/4096, 65535/65536.",
         "trusted: reference descriptor layouts; min <= max and representable size as the domain"),
 "C11": ("options", "bounded-exhaustive enumeration of option-builder subsets, orders and repetitions; whole-image comparison with the reference encoder",
         "For each of 14 option-bearing structures all subsets of its options, all orders for subsets <= 4, duplicates and 1-3x repetitions, all enumerated states; FADT flags: all subsets <= 3 and complements x 9 profiles (all 2^25 in thorough).",
         "trusted: Appendix A flag bit assignments; overwrite-style setters repeated only with the same value"),
 "C12": ("model", "reference-model monitor: cell -> last value map vs the matrix region after every assignment; checksum oracle",
         "SLIT N<=5 (6 thorough) with all assignment sequences <= 2-3; HMAT all shapes 1..5 x 1..5 with all sequences <= 2; random larger shapes/histories incl. diagonal, mirrored, repeated, 1xn, nx1.",
         "trusted: 10-line cell-map model"),
 "C13": ("model", "reference-model monitor: Vec<u8> model with header rules vs as_slice/len/serialised stream after every operation; refusal monitor for out-of-range writes",
         "Bounded-exhaustive sequences over a 72-operation alphabet from 4 initial lengths (incl. Length pre-set writes), random histories up to 300 ops incl. multi-KiB high-valued slices and usize::MAX offsets; refused writes must leave the table unchanged; thorough adds a Miri stage.",
         "trusted: 30-line byte-vector model; pushing zero bytes through the sink is not an append"),
 "C15": ("aml", "differential monitor between alternative construction paths of the real crate",
         "Scope::raw vs Scope::new for body sizes 0..4200 exhaustively x 6 path shapes (+2^20 neighbourhood in thorough) and generated child lists; scopes of 256..700 children; PackageBuilder vs Package::new for 0..255 generated elements (incl. zero-byte elements); &'static str vs String; usize vs u64.",
         "trusted: nothing beyond byte equality"),
 "C16": ("scalar", "specification decompression / inverse ToUUID applied to the emitted constants; refusal monitor for malformed strings",
         "Every EISA character position exhaustively + 10^6 random ids (all 26^3*16^4 in thorough); every UUID nibble x 16 digits x both cases + random; malformed strings must panic: every non-hex / non-separator ASCII byte at every position, moved separators, non-ASCII look-alike characters at every position, wrong lengths.",
         "trusted: spec EISAID and ToUUID rules (self-tested on PNP0501/PNP0A06 and the PCI _DSM UUID)"),
 "C17": ("model", "reference-model monitor: i128 running sum vs raw_value after every operation; exhaustive state x byte x entry point",
         "All 256 states x 256 bytes x 5 single-byte entry points with inverse pairs; random histories of slice/byte/sink operations.",
         "trusted: wide-integer sum"),
 "C18": ("refusal", "panic monitor at 24 narrowing sites, at field maximum / maximum+1 / far beyond, in a release build and (child process) an overflow-checked build; framing oracles at the maximum",
         "Each site must accept and correctly frame the field maximum and must panic one past it and far beyond (fixed and seeded-random amounts, incl. >= 2^32 for PkgLength), in both build profiles.",
         "trusted: field capacities of Appendix D; >= 4 GiB tables unreachable here"),
}

def main():
    props = [json.loads(l) for l in open('/verif/properties.jsonl')]
    commits = subprocess.run("git -C /repo log --format=%H --grep='^verif hook'", shell=True, capture_output=True, text=True).stdout.split()
    checks, na = [], []
    for p in props:
        pid = p['id']
        if pid in BUILT:
            eng, tech, text, note = BUILT[pid]
            checks.append({
                "property_id": pid,
                "quick_cmd": f"./check {pid} quick",
                "thorough_cmd": f"./check {pid} thorough",
                "evidence_file": f"/verif/evidence/{pid}.json",
                "replay_cmd_template": f"./check {pid} --replay {{path}}",
                "engine": eng,
                "level_claimed": {"category": "exploration", "text": text, "design_ref": f"DESIGN.md §3 {pid}"},
                "level_note": note,
                "technique": "runtime monitoring: " + tech,
            })
        else:
            na.append({"property_id": pid, "reason": "monitor not built yet in this round (planned: see DESIGN.md §3); runtime monitoring applies"})
    m = {
        "version": 1,
        "setup_cmd": "./setup.sh",
        "hooks": {
            "guard": "rust_vmm_acpi_tables_verif",
            "enable": "RUSTFLAGS=\"--cfg rust_vmm_acpi_tables_verif\" (set by ./check and ./setup.sh)",
            "baseline_off_cmd": "cd /repo && cargo test --workspace --no-fail-fast --offline",
            "source_commits": commits,
            "add_only": True,
        },
        "engines": [
            {"name": "aml", "path": "harness/src/engines/aml_engine.rs", "serves_properties": ["C06", "C14", "C15"], "kind_free_text": "random AML term trees built through the real crate, parsed back by an independent parser; sink and construction-path differentials"},
            {"name": "scalar", "path": "harness/src/engines/scalar_engine.rs", "serves_properties": ["C07", "C08", "C09", "C10", "C16"], "kind_free_text": "exhaustive / boundary execution of encoders over finite scalar domains with specification decoders"},
            {"name": "options", "path": "harness/src/engines/options_engine.rs", "serves_properties": ["C11"], "kind_free_text": "bounded-exhaustive option subsets/orders/repetitions vs reference encoder"},
            {"name": "model", "path": "harness/src/engines/model_engine.rs", "serves_properties": ["C12", "C13", "C17"], "kind_free_text": "executable sequential models (cell map, byte vector, wide sum) checked after every operation of generated histories"},
            {"name": "refusal", "path": "harness/src/engines/refusal_engine.rs", "serves_properties": ["C18"], "kind_free_text": "panic monitors at narrowing sites in two build profiles"},
            {"name": "tables", "path": "harness/src/engines/tables_engine.rs", "serves_properties": ["C01", "C02", "C03", "C04", "C05", "C14"],
             "kind_free_text": "executes generated builder programs against the real crate, observes every prefix through recording sinks, judges with arithmetic / walker / reference-encoder oracles"},
        ],
        "checks": checks,
        "not_applicable": na,
        "notes": "All checks are runtime monitors over executions of the real crate (harness/ depends on /repo by path and is rebuilt by ./check). exit 2 + INCONCLUSIVE is used for build/oracle problems and is never a violation.",
    }
    json.dump(m, open('/verif/MANIFEST.json', 'w'), indent=1)
    print("checks:", len(checks), "not_applicable:", len(na))

main()
