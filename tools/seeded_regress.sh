#!/bin/bash
# Regression over the stored independent mutants: apply each /verif/seeded/<id>/patch.diff to /repo, run
# the quick checks that meta.json records as having detected it, expect exit 1 again, restore the tree.
# usage: tools/seeded_regress.sh [id-glob]      (default: all)    output: one line per mutant that changed
set -u
GLOB="${1:-*}"
cd /repo || exit 2
git diff --quiet || { echo "/repo dirty"; exit 2; }
ok=0; lost=0; skipped=0
for d in /verif/seeded/$GLOB/; do
  id=$(basename "$d")
  [ -f "$d/meta.json" ] || continue
  props=$(python3 -c "
import json,sys
m=json.load(open('$d/meta.json'))
print(' '.join(k for k,v in m.get('checks_run_against_it',{}).items() if str(v).startswith('detected')))")
  [ -n "$props" ] || { skipped=$((skipped+1)); continue; }
  if ! git apply --check "$d/patch.diff" 2>/dev/null; then
    echo "[$id] patch no longer applies to the current tree (written against an earlier commit) - skipped"; skipped=$((skipped+1)); continue
  fi
  git apply "$d/patch.diff"
  for q in $props; do
    /verif/check "$q" quick >/dev/null 2>&1; rc=$?
    if [ $rc -eq 1 ]; then ok=$((ok+1)); else lost=$((lost+1)); echo "[$id] $q was recorded as detecting this change, now exits $rc"; fi
  done
  git checkout -- .
done
echo "still detected: $ok   no longer detected: $lost   skipped: $skipped"
[ $lost -eq 0 ]
