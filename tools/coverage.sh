#!/bin/bash
# Source coverage of /repo/src reached by the monitors' workloads (what the monitors can observe at all).
# Builds the harness with -Cinstrument-coverage into a scratch directory outside /verif and /repo, runs
# every property's quick workload at a reduced scale of the random streams (one process per property),
# prints llvm-cov's per-file report and every line of /repo/src that no workload executed, and removes
# the scratch directory. usage: tools/coverage.sh [scale-percent, default 10]
set -u
SCALE="${1:-10}"
W=$(mktemp -d /tmp/verifcov.XXXXXX)
trap 'rm -rf "$W"' EXIT
B=$(dirname "$(rustc +nightly --print target-libdir)")/bin
export CARGO_NET_OFFLINE=true
mkdir -p "$W/prof" "$W/vd"
cp /verif/known_findings.json "$W/vd/" 2>/dev/null
cd /verif/harness || exit 2
# build scripts and proc macros are instrumented too: keep their profiles out of /repo
LLVM_PROFILE_FILE="$W/prof/build-%p.profraw" RUSTFLAGS="--cfg rust_vmm_acpi_tables_verif -Cinstrument-coverage" \
  cargo +nightly build --offline --release --bin verif --target-dir "$W/target" >"$W/build.log" 2>&1 || { tail -20 "$W/build.log"; exit 2; }
rm -f "$W"/prof/build-*.profraw
cd "$W" || exit 2
# one single-threaded process per property, all in parallel: threads of one process share the coverage
# counters and spend their time bouncing cache lines (a 16-thread run is ~40x slower than uninstrumented)
for p in C01 C02 C03 C04 C05 C06 C07 C08 C09 C10 C11 C12 C13 C14 C15 C16 C17 C18; do
  # --child: no evidence/replay files, no spawning of further binaries
  ( VERIF_THREADS=1 VERIF_DIR="$W/vd" LLVM_PROFILE_FILE="$W/prof/$p-%p.profraw" timeout 6000 "$W/target/release/verif" "$p" --tier quick --seed "${VERIF_SEED:-1}" --child --scale "$SCALE" 2>&1 | tail -1 ) &
done
wait
find "$W/prof" -size 0 -delete
"$B/llvm-profdata" merge -sparse "$W"/prof/*.profraw -o "$W/all.profdata" || exit 2
IGN='(/verif/|\.cargo|rustc|library/)'
"$B/llvm-cov" report "$W/target/release/verif" -instr-profile="$W/all.profdata" --ignore-filename-regex="$IGN"
echo "--- lines of /repo/src executed by no workload ---"
"$B/llvm-cov" show "$W/target/release/verif" -instr-profile="$W/all.profdata" --ignore-filename-regex="$IGN" --show-line-counts-or-regions 2>/dev/null |
  awk '/^\/repo\//{f=$0} /^ *[0-9]+\| *0\|/{print f " " $0}' | cut -c1-200
