#!/bin/bash
# False-alarm control: apply a property-preserving change (produced by an independent sub-agent) to /repo,
# confirm the crate's tests, run ALL 18 quick checks, restore the tree.
# usage: tools/benign_eval.sh <area> <k>      (reads /tmp/wb_<area>/out/benign<k>.diff)
set -u
A="$1"; K="$2"
SRC=${WB_PREFIX:-/tmp/wb_}$A/out
cd /repo || exit 2
git diff --quiet || { echo "/repo dirty"; exit 2; }
git apply $SRC/benign$K.diff || { echo "[$A-$K] patch does not apply"; exit 2; }
trap 'git -C /repo checkout -- .' EXIT
suite=$(CARGO_NET_OFFLINE=true cargo test --offline --lib 2>&1 | grep "test result" | head -1)
echo "[$A-$K] crate suite: $suite"
echo "$suite" | grep -q "88 passed; 0 failed" || { echo "[$A-$K] crate tests do not pass - not a valid benign change"; exit 3; }
res=""
for p in C01 C02 C03 C04 C05 C06 C07 C08 C09 C10 C11 C12 C13 C14 C15 C16 C17 C18; do
  out=$(/verif/check $p quick 2>&1); rc=$?
  res="$res $p=$rc"
  if [ $rc -ne 0 ]; then echo "[$A-$K] $p exit $rc :: $(echo "$out" | grep -E -A1 -m1 '^VIOLATION|^INCONCLUSIVE' | tr '\n' ' ' | cut -c1-400)"; fi
done
echo "[$A-$K] results:$res"
D=/verif/benign/$A-$K
mkdir -p $D; cp $SRC/benign$K.diff $D/patch.diff; cp $SRC/benign$K.txt $D/description.txt
python3 - "$A-$K" "$res" "$suite" <<'PY'
import json,sys
i,res,suite=sys.argv[1:4]
r={kv.split('=')[0]:int(kv.split('=')[1]) for kv in res.split()}
json.dump({"id":i,"kind":"property-preserving change produced by an independent sub-agent given the 18 property texts",
 "crate_suite_with_patch":suite,"check_exit_codes":r,"false_alarms":[k for k,v in r.items() if v==1],"inconclusive":[k for k,v in r.items() if v==2]},
 open(f'/verif/benign/{i}/result.json','w'),indent=1)
PY
