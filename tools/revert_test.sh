#!/bin/bash
# Positive control: reverse-apply one /repo commit (a "fix:") to the working tree, run the
# given checks, restore the tree. usage: tools/revert_test.sh <commit> Cxx [Cyy ...]
set -u
C="$1"; shift
cd /repo || exit 2
if ! git diff --quiet; then echo "/repo working tree not clean" >&2; exit 2; fi
git show "$C" -- src | git apply -R || { echo "cannot reverse-apply $C"; exit 2; }
trap 'git -C /repo checkout -- . ' EXIT
for p in "$@"; do
  out=$(/verif/check "$p" quick 2>&1); rc=$?
  echo "== revert $(git log --format=%s -1 $C | cut -c1-70) :: $p -> exit $rc"
  echo "$out" | grep -E "VIOLATION|INCONCLUSIVE" | head -2
  echo "$out" | grep -A1 "VIOLATION" | grep -v VIOLATION | head -1
done
