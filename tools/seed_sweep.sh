#!/bin/bash
# Silence check: run every quick check at several seeds; print anything that is not exit 0.
# usage: tools/seed_sweep.sh [tier] seed...
TIER=quick
if [ "$1" = "quick" ] || [ "$1" = "thorough" ]; then TIER=$1; shift; fi
bad=0
for s in "$@"; do
  for p in C01 C02 C03 C04 C05 C06 C07 C08 C09 C10 C11 C12 C13 C14 C15 C16 C17 C18; do
    out=$(VERIF_SEED=$s /verif/check $p $TIER 2>&1); rc=$?
    if [ $rc -ne 0 ]; then bad=1; echo "seed $s $p exit $rc: $(echo "$out" | grep -E 'VIOLATION|INCONCLUSIVE' | head -2)"; fi
  done
  echo "seed $s done"
done
exit $bad
