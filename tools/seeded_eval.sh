#!/bin/bash
# Evaluate one sub-agent mutant: tools/seeded_eval.sh Cxx k [extra props...]
# 1. confirm in the scratch worktree: patch applies, 88 crate tests pass, demo fails with / passes without
# 2. apply to /repo, run the property's quick check (+ extra props), restore
# 3. keep as /verif/seeded/Cxx-k/
set -u
P="$1"; K="$2"; shift 2
WT=${WT_PREFIX:-/tmp/wt_}$P
cd $WT || exit 2
git checkout -q -- src; rm -rf tests; mkdir -p tests
cp out/demo$K.rs tests/demo$K.rs
export CARGO_NET_OFFLINE=true
base=$(cargo test --offline --test demo$K 2>&1 | grep "test result" | head -1)
git apply out/patch$K.diff || { echo "patch does not apply"; exit 2; }
suite=$(cargo test --offline --lib 2>&1 | grep "test result" | head -1)
mut=$(cargo test --offline --test demo$K 2>&1 | grep "test result" | head -1)
git checkout -q -- src; rm -rf tests
echo "[$P-$K] demo on clean tree : $base"
echo "[$P-$K] crate suite w/ patch: $suite"
echo "[$P-$K] demo with patch     : $mut"
ok=1
echo "$base" | grep -q "ok\." || ok=0
echo "$suite" | grep -q "88 passed; 0 failed" || ok=0
echo "$mut" | grep -q "FAILED" || ok=0
if [ $ok = 0 ]; then echo "[$P-$K] NOT CONFIRMED"; exit 3; fi
cd /repo && git diff --quiet || { echo "/repo dirty"; exit 2; }
git apply $WT/out/patch$K.diff || { echo "patch does not apply to /repo"; exit 2; }
res=""
for q in $P "$@"; do
  out=$(/verif/check $q quick 2>&1); rc=$?
  res="$res $q=$rc"
  echo "[$P-$K] check $q -> exit $rc :: $(echo "$out" | grep -A1 -m1 '^VIOLATION' | tail -1 | cut -c1-220)"
done
git -C /repo checkout -- .
D=/verif/seeded/$P-${ID_PREFIX:-}$K
mkdir -p $D
cp $WT/out/patch$K.diff $D/patch.diff; cp $WT/out/demo$K.rs $D/demo.rs; cp $WT/out/meta$K.txt $D/meta.txt
python3 - "$P" "$K" "$res" "$base" "$suite" "$mut" <<'PY'
import json,sys
p,k,res,base,suite,mut=sys.argv[1:7]; import os; idp=os.environ.get('ID_PREFIX','')
meta=open(f'/verif/seeded/{p}-{idp}{k}/meta.txt').read()
json.dump({"id":f"{p}-{idp}{k}","breaks_property":p,"source":"independent sub-agent given only the property text and a scratch worktree",
 "needs_to_manifest":meta.strip(),
 "confirmed":{"demo_on_clean_tree":base,"crate_suite_with_patch":suite,"demo_with_patch":mut},
 "checks_run_against_it":{kv.split('=')[0]:("detected (exit 1)" if kv.split('=')[1]=="1" else "exit "+kv.split('=')[1]) for kv in res.split()}},
 open(f'/verif/seeded/{p}-{idp}{k}/meta.json','w'),indent=1)
PY
echo "[$P-$K] stored in $D ($res)"
