//! Runtime-monitoring harness for rust-vmm/acpi_tables (see /verif/DESIGN.md).
pub mod amlref;
pub mod engines;
pub mod json;
pub mod prng;
pub mod report;
pub mod sinks;
pub mod tables;
