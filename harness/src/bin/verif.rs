use std::time::Instant;
use verif_harness::json::{self, obj, J};
use verif_harness::report::{evidence_json, install_quiet_panic_hook, Cfg, Report, Tier};

fn usage() -> ! {
    eprintln!("usage: verif <Cxx> [--tier quick|thorough] [--seed N] [--replay FILE] [--child] [--scale PCT]");
    std::process::exit(2)
}

fn profile_name() -> &'static str {
    if cfg!(debug_assertions) {
        "checked"
    } else {
        "release"
    }
}

fn main() {
    let args: Vec<String> = std::env::args().collect();
    if args.len() < 2 {
        usage();
    }
    let prop = args[1].clone();
    let mut tier = match std::env::var("VERIF_TIER").as_deref() {
        Ok("thorough") => Tier::Thorough,
        _ => Tier::Quick,
    };
    let mut seed: u64 = std::env::var("VERIF_SEED").ok().and_then(|s| s.parse().ok()).unwrap_or(1);
    let mut replay_file: Option<String> = None;
    let mut child = false;
    let mut scale = 100u64;
    let mut mini = false;
    let mut i = 2;
    while i < args.len() {
        match args[i].as_str() {
            "--tier" => {
                i += 1;
                tier = if args[i] == "thorough" { Tier::Thorough } else { Tier::Quick };
            }
            "--seed" => {
                i += 1;
                seed = args[i].parse().unwrap_or(1);
            }
            "--replay" => {
                i += 1;
                replay_file = Some(args[i].clone());
            }
            "--child" => child = true,
            "--mini" => mini = true,
            "--scale" => {
                i += 1;
                scale = args[i].parse().unwrap_or(100);
            }
            _ => usage(),
        }
        i += 1;
    }
    let verif_dir = std::env::var("VERIF_DIR").unwrap_or_else(|_| "/verif".to_string());
    // known findings: ids listed with status "known"
    let mut known = Vec::new();
    if let Ok(s) = std::fs::read_to_string(format!("{}/known_findings.json", verif_dir)) {
        match json::parse(&s) {
            Ok(j) => {
                if let Some(a) = j.get("findings").and_then(|f| f.as_arr()) {
                    for f in a {
                        if f.get("status").and_then(|s| s.as_str()) == Some("known") {
                            if let Some(id) = f.get("id").and_then(|s| s.as_str()) {
                                known.push(id.to_string());
                            }
                        }
                    }
                }
            }
            Err(e) => {
                println!("INCONCLUSIVE property={} reason=known_findings.json unreadable: {}", prop, e);
                std::process::exit(2);
            }
        }
    }
    let mut replay = None;
    if let Some(f) = &replay_file {
        let s = std::fs::read_to_string(f).expect("replay file");
        let j = json::parse(&s).expect("replay json");
        let stream = j.get("stream").and_then(|s| s.as_str()).expect("stream").to_string();
        let idx = j.get("case").and_then(|s| s.as_i128()).expect("case") as u64;
        seed = j.get("seed").and_then(|s| s.as_i128()).expect("seed") as u64;
        if let Some(t) = j.get("tier").and_then(|s| s.as_str()) {
            tier = if t == "thorough" { Tier::Thorough } else { Tier::Quick };
        }
        // a violation observed by the checked-profile child is replayed by that binary
        if j.get("profile").and_then(|s| s.as_str()) == Some("checked") && profile_name() == "release" {
            if let Ok(bin) = std::env::var("VERIF_CHECKED_BIN") {
                let st = std::process::Command::new(bin).args(&args[1..]).env_remove("VERIF_CHECKED_BIN").status().expect("run checked binary");
                std::process::exit(st.code().unwrap_or(2));
            }
        }
        replay = Some((stream, idx));
    }
    let threads = std::env::var("VERIF_THREADS").ok().and_then(|s| s.parse().ok()).unwrap_or(16usize);
    let cfg = Cfg { prop: prop.clone(), tier, seed, known, replay, profile: profile_name(), threads, scale_pct: scale, mini };
    install_quiet_panic_hook();
    let t0 = Instant::now();
    let (rep, extra) = verif_harness::engines::dispatch(&cfg, child);
    let wall = t0.elapsed().as_secs_f64();
    finish(&cfg, rep, extra, wall, &verif_dir, child);
}

fn finish(cfg: &Cfg, rep: Report, extra: Vec<(&'static str, J)>, wall: f64, verif_dir: &str, child: bool) {
    let prop = &cfg.prop;
    for (id, (what, n)) in &rep.known {
        println!("KNOWN-FINDING: property={} {} {} (matched {} times)", prop, id, what, n);
    }
    let mut exit = 0;
    if rep.violation_count > 0 {
        exit = 1;
        let _ = std::fs::create_dir_all(format!("{}/replay", verif_dir));
        let mut seen = std::collections::HashSet::new();
        for v in &rep.violations {
            // one replay file per distinct message shape
            let sig: String = v.msg.chars().filter(|c| !c.is_ascii_digit()).collect();
            if !seen.insert(sig) && seen.len() > 0 && seen.len() >= 12 {
                continue;
            }
            let h = verif_harness::prng::hash_str(&format!("{}{}{}", v.stream, v.idx, v.msg));
            let path = format!("{}/replay/{}-{:016x}.json", verif_dir, prop, h);
            let j = obj(vec![
                ("property", prop.as_str().into()),
                ("seed", J::Int(cfg.seed as i128)),
                ("tier", cfg.tier.name().into()),
                ("profile", cfg.profile.into()),
                ("stream", v.stream.as_str().into()),
                ("case", J::Int(v.idx as i128)),
                ("message", v.msg.as_str().into()),
                ("detail", v.detail.clone()),
            ]);
            let _ = std::fs::write(&path, j.pretty());
            println!("VIOLATION property={} replay={}", prop, path);
            println!("  {}", v.msg);
        }
        println!("violations total: {}", rep.violation_count);
    } else if !rep.inconclusive.is_empty() {
        exit = 2;
        for r in &rep.inconclusive {
            println!("INCONCLUSIVE property={} reason={}", prop, r);
        }
    }
    if cfg.replay.is_none() {
        let ev = evidence_json(cfg, &rep, wall, extra);
        if child {
            // the parent folds this into its own evidence
            println!("CHILD-EVIDENCE {}", ev.compact());
        } else {
            let path = format!("{}/evidence/{}.json", verif_dir, prop);
            let _ = std::fs::create_dir_all(format!("{}/evidence", verif_dir));
            std::fs::write(&path, ev.pretty()).expect("write evidence");
        }
    }
    println!(
        "{} {} seed={} profile={}: evaluations={} observations={} distinct={} neg_controls={} violations={} wall={:.1}s",
        prop,
        cfg.tier.name(),
        cfg.seed,
        cfg.profile,
        rep.evaluations,
        rep.observations,
        rep.distinct.len(),
        rep.neg_controls,
        rep.violation_count,
        wall
    );
    std::process::exit(exit);
}
