//! Hand-written xoshiro256** + splitmix64 seeding; boundary-biased scalar generators.

#[derive(Clone)]
pub struct Rng {
    s: [u64; 4],
}

fn splitmix(x: &mut u64) -> u64 {
    *x = x.wrapping_add(0x9E37_79B9_7F4A_7C15);
    let mut z = *x;
    z = (z ^ (z >> 30)).wrapping_mul(0xBF58_476D_1CE4_E5B9);
    z = (z ^ (z >> 27)).wrapping_mul(0x94D0_49BB_1331_11EB);
    z ^ (z >> 31)
}

pub fn hash_str(s: &str) -> u64 {
    // FNV-1a
    let mut h: u64 = 0xcbf2_9ce4_8422_2325;
    for b in s.bytes() {
        h ^= b as u64;
        h = h.wrapping_mul(0x0000_0100_0000_01B3);
    }
    h
}

pub fn hash_bytes(s: &[u8]) -> u64 {
    let mut h: u64 = 0xcbf2_9ce4_8422_2325;
    for b in s {
        h ^= *b as u64;
        h = h.wrapping_mul(0x0000_0100_0000_01B3);
    }
    h
}

impl Rng {
    pub fn new(seed: u64) -> Self {
        let mut x = seed;
        let s = [splitmix(&mut x), splitmix(&mut x), splitmix(&mut x), splitmix(&mut x)];
        Rng { s }
    }
    /// Per-case generator: (seed, stream name, case index) -> independent stream.
    pub fn for_case(seed: u64, stream: &str, idx: u64) -> Self {
        let mut x = seed ^ hash_str(stream).rotate_left(17) ^ idx.wrapping_mul(0xD6E8_FEB8_6659_FD93);
        let a = splitmix(&mut x);
        Rng::new(a ^ idx)
    }
    pub fn next_u64(&mut self) -> u64 {
        let r = self.s[1].wrapping_mul(5).rotate_left(7).wrapping_mul(9);
        let t = self.s[1] << 17;
        self.s[2] ^= self.s[0];
        self.s[3] ^= self.s[1];
        self.s[1] ^= self.s[2];
        self.s[0] ^= self.s[3];
        self.s[2] ^= t;
        self.s[3] = self.s[3].rotate_left(45);
        r
    }
    pub fn below(&mut self, n: u64) -> u64 {
        if n == 0 {
            return 0;
        }
        // multiply-shift; bias negligible for our purposes
        ((self.next_u64() as u128 * n as u128) >> 64) as u64
    }
    pub fn range(&mut self, lo: u64, hi_incl: u64) -> u64 {
        lo + self.below(hi_incl - lo + 1)
    }
    pub fn usize_below(&mut self, n: usize) -> usize {
        self.below(n as u64) as usize
    }
    pub fn bool(&mut self) -> bool {
        self.next_u64() & 1 == 1
    }
    pub fn chance(&mut self, num: u64, den: u64) -> bool {
        self.below(den) < num
    }
    pub fn pick<'a, T>(&mut self, xs: &'a [T]) -> &'a T {
        &xs[self.usize_below(xs.len())]
    }
    pub fn bytes<const N: usize>(&mut self) -> [u8; N] {
        let mut out = [0u8; N];
        for b in out.iter_mut() {
            *b = self.next_u64() as u8;
        }
        out
    }
    pub fn byte_vec(&mut self, n: usize) -> Vec<u8> {
        (0..n).map(|_| self.next_u64() as u8).collect()
    }

    /// Boundary-biased value of `bits` width (1..=64).
    pub fn biased(&mut self, bits: u32) -> u64 {
        let mask: u64 = if bits == 64 { u64::MAX } else { (1u64 << bits) - 1 };
        let v = match self.below(16) {
            0 => 0,
            1 => 1,
            2 => 2,
            3 => mask,
            4 => mask - 1,
            5 => 1u64 << self.below(bits as u64),            // single bit
            6 => !(1u64 << self.below(bits as u64)),          // single zero bit
            7 => {
                let b = self.below(256);
                b * 0x0101_0101_0101_0101 // byte fill
            }
            8 => 0x0102_0304_0506_0708u64 >> (64 - bits.max(8).min(64)), // asymmetric, truncated from the top
            9 => {
                // near a power-of-two boundary
                let p = 1u64 << self.below(bits as u64);
                p.wrapping_add(self.below(5)).wrapping_sub(2)
            }
            10 => 0xFF,
            11 => 0x100,
            12 => 0xFFFF,
            13 => 0x1_0000,
            _ => self.next_u64(),
        };
        v & mask
    }
    pub fn u8b(&mut self) -> u8 {
        self.biased(8) as u8
    }
    pub fn u16b(&mut self) -> u16 {
        self.biased(16) as u16
    }
    pub fn u32b(&mut self) -> u32 {
        self.biased(32) as u32
    }
    pub fn u64b(&mut self) -> u64 {
        self.biased(64)
    }
}

/// A "distinguishing" value for field number `k` of a structure: every byte non-zero,
/// bytes pairwise distinct within the value and different between fields, asymmetric.
pub fn distinguishing(k: u32, bits: u32) -> u64 {
    let mut v: u64 = 0;
    let nbytes = (bits + 7) / 8;
    for i in 0..nbytes {
        let b = (0x11u64 + (k as u64 * 8 + i as u64) * 7) % 251 + 1; // 1..=251
        v |= (b & 0xff) << (8 * i);
    }
    if bits < 64 {
        v &= (1u64 << bits) - 1;
    }
    v
}
