//! Recording sinks: the instrumentation at the crate's output boundary.

use acpi_tables::aml::PackageBuilder;
use acpi_tables::sdt::Sdt;
use acpi_tables::{Aml, AmlSink, Checksum};

/// Implements only the mandatory method, so every default method of the trait is exercised.
#[derive(Default)]
pub struct ByteOnly(pub Vec<u8>);
impl AmlSink for ByteOnly {
    fn byte(&mut self, byte: u8) {
        self.0.push(byte);
    }
}

/// Overrides every entry point; logs the call pattern.
#[derive(Default)]
pub struct Full {
    pub data: Vec<u8>,
    /// (entry point 0..=4 = byte/word/dword/qword/vec, length)
    pub calls: Vec<(u8, u32)>,
}
impl AmlSink for Full {
    fn byte(&mut self, b: u8) {
        self.calls.push((0, 1));
        self.data.push(b);
    }
    fn word(&mut self, w: u16) {
        self.calls.push((1, 2));
        self.data.extend_from_slice(&[(w & 0xff) as u8, (w >> 8) as u8]);
    }
    fn dword(&mut self, d: u32) {
        self.calls.push((2, 4));
        for i in 0..4 {
            self.data.push((d >> (8 * i)) as u8);
        }
    }
    fn qword(&mut self, q: u64) {
        self.calls.push((3, 8));
        for i in 0..8 {
            self.data.push((q >> (8 * i)) as u8);
        }
    }
    fn vec(&mut self, v: &[u8]) {
        self.calls.push((4, v.len() as u32));
        self.data.extend_from_slice(v);
    }
}

impl Full {
    pub fn pattern_hash(&self) -> u64 {
        let mut h: u64 = 0xcbf2_9ce4_8422_2325;
        for (k, l) in &self.calls {
            h ^= *k as u64 + 1;
            h = h.wrapping_mul(0x0000_0100_0000_01B3);
            h ^= *l as u64;
            h = h.wrapping_mul(0x0000_0100_0000_01B3);
        }
        h
    }
}

/// Online monitor: length, arithmetic byte sum and the bytes themselves.
#[derive(Default)]
pub struct MonitorSink {
    pub data: Vec<u8>,
    pub sum: u64,
}
impl AmlSink for MonitorSink {
    fn byte(&mut self, b: u8) {
        self.sum += b as u64;
        self.data.push(b);
    }
    fn vec(&mut self, v: &[u8]) {
        for b in v {
            self.sum += *b as u64;
        }
        self.data.extend_from_slice(v);
    }
}

pub fn to_vec(a: &dyn Aml) -> Vec<u8> {
    let mut v = Vec::new();
    a.to_aml_bytes(&mut v);
    v
}

pub fn sum8(b: &[u8]) -> u8 {
    b.iter().fold(0u8, |a, x| a.wrapping_add(*x))
}

pub const SINK_NAMES: [&str; 6] = ["Vec<u8>", "ByteOnly", "Full", "Checksum", "Sdt", "PackageBuilder"];

pub struct SinkObs {
    pub vec: Vec<u8>,
    pub byte_only: Vec<u8>,
    pub full: Vec<u8>,
    pub full_pattern: u64,
    pub full_calls: usize,
    pub checksum_raw: u8,
    pub sdt_tail: Vec<u8>,
    pub sdt_sum: u8,
    pub sdt_len_field: u32,
    pub sdt_total: usize,
    pub pkg_tail: Vec<u8>,
}

/// Serialise one object into all six sink kinds.
pub fn observe_all_sinks(a: &dyn Aml) -> SinkObs {
    let vec = to_vec(a);
    // the generic table recomputes its checksum per pushed byte (quadratic): only for small objects
    let with_sdt = vec.len() <= 1500;
    let mut bo = ByteOnly::default();
    a.to_aml_bytes(&mut bo);
    let mut full = Full::default();
    a.to_aml_bytes(&mut full);
    let mut ck = Checksum::default();
    a.to_aml_bytes(&mut ck);
    let mut sdt = Sdt::new(*b"VRIF", 36, 1, *b"VERIFY", *b"VERIFTBL", 1);
    if with_sdt {
        a.to_aml_bytes(&mut sdt);
    } else {
        sdt.append_slice(&vec);
    }
    let sdt_bytes = sdt.as_slice().to_vec();
    // both ways of obtaining an empty builder must behave alike as a sink
    let mut pb = PackageBuilder::new();
    a.to_aml_bytes(&mut pb);
    let mut pb_bytes = to_vec(&pb);
    let mut pbd = PackageBuilder::default();
    a.to_aml_bytes(&mut pbd);
    if to_vec(&pbd) != pb_bytes {
        pb_bytes = to_vec(&pbd); // report the deviating one
        pb_bytes.push(0xEE); // and make sure it cannot be mistaken for the expected stream
    }
    // PackageBuilder image: 12 PkgLength NumElements(0) data...
    let pkg_tail = strip_package_builder(&pb_bytes);
    SinkObs {
        vec,
        byte_only: bo.0,
        full_pattern: full.pattern_hash(),
        full_calls: full.calls.len(),
        full: full.data,
        checksum_raw: ck.raw_value(),
        sdt_tail: sdt_bytes[36..].to_vec(),
        sdt_sum: sum8(&sdt_bytes),
        sdt_len_field: u32::from_le_bytes([sdt_bytes[4], sdt_bytes[5], sdt_bytes[6], sdt_bytes[7]]),
        sdt_total: sdt_bytes.len(),
        pkg_tail,
    }
}

/// Given the serialisation of a PackageBuilder used purely as a sink (no add_element calls),
/// return the data bytes after opcode, PkgLength and the NumElements byte. The PkgLength
/// width is taken from the lead byte per the specification.
pub fn strip_package_builder(b: &[u8]) -> Vec<u8> {
    if b.len() < 3 || b[0] != 0x12 {
        return b.to_vec(); // will mismatch and be reported by the caller
    }
    let follow = (b[1] >> 6) as usize;
    let start = 1 + 1 + follow + 1;
    if start > b.len() {
        return b.to_vec();
    }
    b[start..].to_vec()
}
