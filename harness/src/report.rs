//! Run configuration, per-run report, parallel case runner, evidence/replay writers.

use crate::json::{obj, J};
use crate::prng::Rng;
use std::cell::RefCell;
use std::collections::{BTreeMap, HashSet};
use std::hash::{Hash, Hasher};
use std::panic::{catch_unwind, AssertUnwindSafe};
use std::sync::atomic::{AtomicU64, Ordering};
use std::sync::Mutex;

#[derive(Clone, Copy, PartialEq, Eq, Debug)]
pub enum Tier {
    Quick,
    Thorough,
}

impl Tier {
    pub fn name(self) -> &'static str {
        match self {
            Tier::Quick => "quick",
            Tier::Thorough => "thorough",
        }
    }
    pub fn pick<T>(self, q: T, t: T) -> T {
        match self {
            Tier::Quick => q,
            Tier::Thorough => t,
        }
    }
}

#[derive(Clone, Debug)]
pub struct Cfg {
    pub prop: String,
    pub tier: Tier,
    pub seed: u64,
    /// ids of findings listed with status "known" in known_findings.json
    pub known: Vec<String>,
    pub replay: Option<(String, u64)>,
    pub profile: &'static str,
    pub threads: usize,
    /// scale factor for workloads (used by the checked-profile child)
    pub scale_pct: u64,
    /// miniature workload (used under Miri): at most MINI_CASES strided cases per stream
    pub mini: bool,
}

pub const MINI_CASES: u64 = 16;

impl Cfg {
    pub fn is_known(&self, id: &str) -> bool {
        self.known.iter().any(|k| k == id)
    }
    pub fn scaled(&self, n: u64) -> u64 {
        (n * self.scale_pct / 100).max(1)
    }
}

#[derive(Clone, Debug)]
pub struct Violation {
    pub stream: String,
    pub idx: u64,
    pub msg: String,
    pub detail: J,
}

#[derive(Default)]
pub struct Report {
    pub evaluations: u64,
    pub observations: u64,
    pub distinct: HashSet<u64>,
    pub samples: Vec<J>,
    pub cov: BTreeMap<String, u64>,
    pub violations: Vec<Violation>,
    pub violation_count: u64,
    pub known: BTreeMap<String, (String, u64)>,
    pub neg_controls: u64,
    pub inconclusive: Vec<String>,
    pub assumptions: Vec<String>,
    pub exhaustive_slices: Vec<String>,
    pub rules: Vec<String>,
}

const MAX_VIOL: usize = 40;
const MAX_SAMPLES: usize = 12;

impl Report {
    pub fn merge(&mut self, o: Report) {
        self.evaluations += o.evaluations;
        self.observations += o.observations;
        self.distinct.extend(o.distinct);
        for s in o.samples {
            if self.samples.len() < MAX_SAMPLES {
                self.samples.push(s);
            }
        }
        for (k, v) in o.cov {
            *self.cov.entry(k).or_insert(0) += v;
        }
        self.violation_count += o.violation_count;
        for v in o.violations {
            if self.violations.len() < MAX_VIOL {
                self.violations.push(v);
            }
        }
        for (k, (w, n)) in o.known {
            let e = self.known.entry(k).or_insert((w, 0));
            e.1 += n;
        }
        self.neg_controls += o.neg_controls;
        for i in o.inconclusive {
            if !self.inconclusive.contains(&i) && self.inconclusive.len() < 20 {
                self.inconclusive.push(i);
            }
        }
        for a in o.assumptions {
            if !self.assumptions.contains(&a) {
                self.assumptions.push(a);
            }
        }
        for a in o.exhaustive_slices {
            if !self.exhaustive_slices.contains(&a) {
                self.exhaustive_slices.push(a);
            }
        }
        for a in o.rules {
            if !self.rules.contains(&a) {
                self.rules.push(a);
            }
        }
    }
    pub fn cov(&mut self, k: &str) {
        *self.cov.entry(k.to_string()).or_insert(0) += 1;
    }
    pub fn cov_n(&mut self, k: &str, n: u64) {
        *self.cov.entry(k.to_string()).or_insert(0) += n;
    }
    pub fn distinct<T: Hash>(&mut self, t: &T) {
        let mut h = std::collections::hash_map::DefaultHasher::new();
        t.hash(&mut h);
        self.distinct.insert(h.finish());
    }
    pub fn assume(&mut self, s: &str) {
        if !self.assumptions.iter().any(|a| a == s) {
            self.assumptions.push(s.to_string());
        }
    }
    pub fn rule(&mut self, s: &str) {
        if !self.rules.iter().any(|a| a == s) {
            self.rules.push(s.to_string());
        }
    }
    pub fn exhaustive(&mut self, s: &str) {
        if !self.exhaustive_slices.iter().any(|a| a == s) {
            self.exhaustive_slices.push(s.to_string());
        }
    }
    pub fn inconclusive(&mut self, s: String) {
        if !self.inconclusive.contains(&s) && self.inconclusive.len() < 20 {
            self.inconclusive.push(s);
        }
    }
}

pub struct CaseCtx<'a> {
    pub cfg: &'a Cfg,
    pub stream: &'a str,
    pub idx: u64,
    pub rng: Rng,
    pub rep: &'a mut Report,
    pub verbose: bool,
    /// set by an engine when the case contains input that no property promises to be accepted
    /// (strings with NUL or non-ASCII characters, zero-sized matrices, zero-byte elements …): a deliberate
    /// refusal there is not counted towards the workload-erosion tripwire
    pub fringe: bool,
    /// set by an engine when the property under check promises that the input of this case is accepted
    /// (C07 lengths below 2^28, C08 integers, C10 descriptors inside the stated domain): any panic is a
    /// violation
    pub must_accept: bool,
}

impl<'a> CaseCtx<'a> {
    pub fn violation(&mut self, msg: String, detail: J) {
        self.rep.violation_count += 1;
        if self.verbose {
            eprintln!("[replay] violation: {}\n{}", msg, detail.pretty());
        }
        if self.rep.violations.len() < MAX_VIOL {
            self.rep.violations.push(Violation { stream: self.stream.to_string(), idx: self.idx, msg, detail });
        }
    }
    pub fn known(&mut self, id: &str, what: &str) {
        let e = self.rep.known.entry(id.to_string()).or_insert((what.to_string(), 0));
        e.1 += 1;
    }
    pub fn sample(&mut self, f: impl FnOnce() -> J) {
        if self.rep.samples.len() < 3 {
            let j = f();
            self.rep.samples.push(obj(vec![("stream", self.stream.into()), ("case", self.idx.into()), ("what", j)]));
        }
    }
    pub fn eval(&mut self) {
        self.rep.evaluations += 1;
    }
    pub fn obs(&mut self) {
        self.rep.observations += 1;
    }
}

thread_local! {
    pub static LAST_PANIC: RefCell<String> = RefCell::new(String::new());
}

pub fn install_quiet_panic_hook() {
    std::panic::set_hook(Box::new(|info| {
        let msg = if let Some(s) = info.payload().downcast_ref::<&str>() {
            s.to_string()
        } else if let Some(s) = info.payload().downcast_ref::<String>() {
            s.clone()
        } else {
            "<non-string panic>".to_string()
        };
        let loc = info.location().map(|l| format!("{}:{}", l.file(), l.line())).unwrap_or_default();
        LAST_PANIC.with(|p| *p.borrow_mut() = format!("{} @ {}", msg, loc));
    }));
}

pub fn last_panic() -> String {
    LAST_PANIC.with(|p| p.borrow().clone())
}

/// Run `f`, returning Err(panic message) if it panicked.
pub fn catches<R>(f: impl FnOnce() -> R) -> Result<R, String> {
    match catch_unwind(AssertUnwindSafe(f)) {
        Ok(r) => Ok(r),
        Err(_) => Err(last_panic()),
    }
}

/// Properties whose statement promises that every input of their workload is accepted (all lengths
/// below 2^28, all integers, all well-formed names, all descriptors inside the stated domain, all
/// in-range cells and operations, all well-formed ids, all accumulator operations): their engines
/// generate nothing else outside explicitly caught refusal probes, so any escaped panic is a violation.
fn promises_acceptance(cfg: &Cfg) -> bool {
    matches!(cfg.prop.as_str(), "C07" | "C08" | "C09" | "C10" | "C12" | "C13" | "C16" | "C17")
}

/// Is this panic message one of the language's / standard library's run-time failures (as opposed to
/// a refusal the crate's author wrote down)?
pub fn is_runtime_failure(p: &str) -> bool {
    const PATTERNS: [&str; 24] = [
        "index out of bounds",
        "attempt to ", // add/subtract/multiply/negate/shift with overflow, divide by zero, remainder
        "called `Option::unwrap()` on a `None` value",
        "out of range for slice",
        "range start index",
        "range end index",
        "slice index starts at",
        "is not a char boundary",
        "byte index",
        "source slice length",
        "destination and source slices have different lengths",
        "removal index",
        "insertion index",
        "swap_remove index",
        "capacity overflow",
        "internal error: entered unreachable code",
        "not implemented",
        "not yet implemented",
        "mid > len",
        "explicit panic",
        "chunk size must be non-zero",
        "already borrowed",
        "already mutably borrowed",
        "memory allocation",
    ];
    if PATTERNS.iter().any(|q| p.contains(q)) {
        return true;
    }
    // `x.try_into().unwrap()` / `u16::try_from(x).unwrap()` is an idiom for refusing an oversize value
    p.contains("called `Result::unwrap()` on an `Err` value") && !p.contains("TryFromIntError")
}

/// A panic that escaped a workload case (the engines catch the panics they expect).
/// * A *run-time failure* (index/slice out of bounds, arithmetic overflow, unwrap on None …), or any
///   panic raised outside the crate's own source (the harness reading an image that is not what its
///   header says, the allocator), on an in-domain step is a violation of the property under check: the
///   operation was not carried out.
/// * A *deliberate refusal* — `assert!`/`assert_eq!` with or without a message, `panic!("…")`,
///   `.expect("…")`, raised in `/repo/src` — is the crate declining an argument. Where acceptance is
///   part of the property the engines catch and judge it themselves (C09, C12, C13, C16, C18) or mark the
///   case `must_accept` (C07, C08, C10). Elsewhere the history simply ends there: it is counted, and if
///   such refusals become common among cases without fringe input the run is inconclusive (the workload
///   no longer exercises what it promises) — never a violation.
fn escaped_panic(cx: &mut CaseCtx, p: String) {
    let in_crate = p.rsplit(" @ ").next().map(|loc| loc.starts_with("/repo/")).unwrap_or(false);
    if in_crate && !cx.must_accept && !is_runtime_failure(&p) {
        cx.rep.cov(if cx.fringe { "history_with_fringe_input_ended_by_refusal" } else { "history_ended_by_argument_assertion" });
        if cx.verbose {
            eprintln!("[replay] case ended by a deliberate refusal of the crate: {}", p);
        }
    } else {
        cx.violation(format!("unexpected panic on an in-domain workload step: {}", p), J::Null);
    }
}

/// Run `n` cases of stream `stream` in parallel. Each case gets its own PRNG derived from
/// (seed, stream, idx). A panic escaping a case is an unexpected refusal of an in-domain
/// workload step and is reported as a violation (the engines catch the panics they expect).
pub fn par_cases<F>(cfg: &Cfg, stream: &str, n: u64, f: F) -> Report
where
    F: Fn(&mut CaseCtx) + Sync,
{
    let mut total = Report::default();
    if let Some((s, i)) = &cfg.replay {
        if s != stream {
            return total;
        }
        let mut rep = Report::default();
        let mut cx = CaseCtx { cfg, stream, idx: *i, rng: Rng::for_case(cfg.seed, stream, *i), rep: &mut rep, verbose: true, fringe: false, must_accept: promises_acceptance(cfg) };
        if let Err(p) = catches(|| f(&mut cx)) {
            escaped_panic(&mut cx, p);
        }
        total.merge(rep);
        return total;
    }
    if cfg.mini {
        // miniature run: a strided subset of the same deterministic cases, sequentially
        let k = n.min(MINI_CASES);
        let mut rep = Report::default();
        for j in 0..k {
            // offset 1: index 0 of a stream is often its deliberately largest case
            let idx = (j * (n / k) + 1).min(n - 1);
            let mut cx = CaseCtx { cfg, stream, idx, rng: Rng::for_case(cfg.seed, stream, idx), rep: &mut rep, verbose: false, fringe: false, must_accept: promises_acceptance(cfg) };
            if let Err(p) = catches(|| f(&mut cx)) {
                escaped_panic(&mut cx, p);
            }
        }
        total.merge(rep);
        return total;
    }
    let next = AtomicU64::new(0);
    let chunk: u64 = (n / (cfg.threads as u64 * 8)).clamp(1, 4096);
    let merged = Mutex::new(Report::default());
    std::thread::scope(|sc| {
        for _ in 0..cfg.threads.min(n.max(1) as usize) {
            sc.spawn(|| {
                let mut rep = Report::default();
                loop {
                    let start = next.fetch_add(chunk, Ordering::Relaxed);
                    if start >= n {
                        break;
                    }
                    for idx in start..(start + chunk).min(n) {
                        let mut cx =
                            CaseCtx { cfg, stream, idx, rng: Rng::for_case(cfg.seed, stream, idx), rep: &mut rep, verbose: false, fringe: false, must_accept: promises_acceptance(cfg) };
                        if let Err(p) = catches(|| f(&mut cx)) {
                            escaped_panic(&mut cx, p);
                        }
                    }
                }
                merged.lock().unwrap().merge(rep);
            });
        }
    });
    total.merge(merged.into_inner().unwrap());
    total.cov_n(&format!("stream_cases:{}", stream), n);
    let refused = total.cov.get("history_ended_by_argument_assertion").copied().unwrap_or(0);
    if n >= 50 && refused * 20 > n {
        total.inconclusive(format!("stream {}: {} of {} cases without fringe input ended by a deliberate refusal of the crate (> 5 %); the workload no longer covers what it promises", stream, refused, n));
    }
    total
}

pub fn evidence_json(cfg: &Cfg, rep: &Report, wall_s: f64, extra: Vec<(&str, J)>) -> J {
    let mut cov_items: Vec<(String, J)> = Vec::new();
    cov_items.push(("evaluations".into(), J::Int(rep.evaluations.max(0) as i128)));
    cov_items.push(("observation_points".into(), J::Int(rep.observations as i128)));
    cov_items.push(("distinct_nontrivial".into(), J::Int(rep.distinct.len() as i128)));
    cov_items.push(("rule".into(), J::Str(rep.rules.join(" | "))));
    cov_items.push(("samples".into(), J::Arr(rep.samples.clone())));
    cov_items.push(("exhaustive".into(), J::Bool(false)));
    cov_items.push((
        "exhaustive_slices".into(),
        J::Arr(rep.exhaustive_slices.iter().map(|s| J::Str(s.clone())).collect()),
    ));
    cov_items.push(("negative_controls".into(), J::Int(rep.neg_controls as i128)));
    cov_items.push((
        "observed".into(),
        J::Obj(rep.cov.iter().map(|(k, v)| (k.clone(), J::Int(*v as i128))).collect()),
    ));
    cov_items.push((
        "known_findings_hit".into(),
        J::Obj(rep.known.iter().map(|(k, (w, n))| (k.clone(), obj(vec![("what", w.as_str().into()), ("times", (*n).into())]))).collect()),
    ));
    cov_items.push(("inconclusive".into(), J::Arr(rep.inconclusive.iter().map(|s| J::Str(s.clone())).collect())));
    cov_items.push(("build_profile".into(), J::Str(cfg.profile.to_string())));
    for (k, v) in extra {
        cov_items.push((k.to_string(), v));
    }
    obj(vec![
        ("property_id", cfg.prop.as_str().into()),
        ("tier", cfg.tier.name().into()),
        ("seed", J::Int(cfg.seed as i128)),
        ("level", "exploration".into()),
        ("coverage", J::Obj(cov_items)),
        ("assumptions", J::Arr(rep.assumptions.iter().map(|s| J::Str(s.clone())).collect())),
        ("wall_s", J::Num(wall_s)),
        ("violations", J::Int(rep.violation_count as i128)),
    ])
}
