//! Engines over (mostly finite) scalar domains: C07 PkgLength, C08 integers, C09 name paths,
//! C10 resource descriptors, C16 EISA ids and UUIDs.

use crate::amlref::build::{build_bytes, Builder};
use crate::amlref::gen::*;
use crate::amlref::parse::{decode_pkg_length, parse_all};
use crate::amlref::resref::{descriptor, template_payload, walk_descriptors};
use crate::amlref::term::*;
use crate::engines::aml_engine::{check_term, term_json};
use crate::json::{hex, obj, J};
use crate::report::{catches, par_cases, CaseCtx, Cfg, Report, Tier};
use crate::sinks::to_vec;
use acpi_tables::{aml, Aml, AmlSink};

// ------------------------------------------------------------------------------------ C07

const CAP: [usize; 4] = [63, 4095, (1 << 20) - 1, (1 << 28) - 1];

/// Specification check of one PkgLength encoding. `total` is the value it must decode to;
/// `minimal_for_content` = Some(content) demands the shortest width that can include itself.
fn check_pkglen(enc: &[u8], total: usize, minimal_for_content: Option<usize>) -> Result<(), String> {
    if enc.is_empty() || enc.len() > 4 {
        return Err(format!("encoding has {} bytes", enc.len()));
    }
    let k = enc.len();
    let lead = enc[0];
    if (lead >> 6) as usize != k - 1 {
        return Err(format!("lead byte {:#04x}: bits 7-6 say {} follow bytes, {} present", lead, lead >> 6, k - 1));
    }
    if k > 1 && lead & 0x30 != 0 {
        return Err(format!("lead byte {:#04x}: bits 5-4 must be zero in a multi-byte encoding", lead));
    }
    let mut v = if k == 1 { (lead & 0x3f) as usize } else { (lead & 0x0f) as usize };
    for i in 1..k {
        v |= (enc[i] as usize) << (4 + 8 * (i - 1));
    }
    if v != total {
        return Err(format!("decodes to {} but must be {}", v, total));
    }
    if let Some(content) = minimal_for_content {
        let want = (1..=4).find(|w| content + w <= CAP[w - 1]);
        if want != Some(k) {
            return Err(format!("uses {} bytes for a {}-byte content; the shortest self-inclusive encoding has {:?}", k, content, want));
        }
    }
    Ok(())
}

#[cfg(rust_vmm_acpi_tables_verif)]
fn hook(len: usize, incl: bool) -> Vec<u8> {
    aml::verif_create_pkg_length(len, incl)
}
#[cfg(not(rust_vmm_acpi_tables_verif))]
fn hook(_len: usize, _incl: bool) -> Vec<u8> {
    panic!("harness built without the verification hook")
}

pub fn run_c07(cfg: &Cfg) -> Report {
    let thorough = cfg.tier == Tier::Thorough;
    let mut rep = Report::default();
    rep.rule(
        "the crate's PkgLength encoder driven through the verification hook for EVERY n in [0, 2^28) in the exclusive form and every content length whose \
         self-inclusive total is < 2^28, decoded by the specification rule; every public length-prefixed constructor tied to it by building real objects \
         of swept sizes and decoding their emitted PkgLength against the actual byte count; field-entry widths through the public Field API",
    );
    // (a) exhaustive through the hook, sharded into 4096 blocks per form
    let scale_blocks: u64 = if cfg.scale_pct < 100 { 64 } else { 4096 };
    let block = (1u64 << 28) / 4096;
    rep.merge(par_cases(cfg, "pkglen.hook", 2 * scale_blocks, |cx| {
        let incl = cx.idx % 2 == 0;
        let bi = cx.idx / 2;
        let lo = (bi * (4096 / scale_blocks)) * block;
        let hi = lo + block;
        let mut n = lo as usize;
        let lim = if incl { (1usize << 28) - 4 } else { 1usize << 28 };
        let mut count = 0u64;
        while n < hi as usize && n < lim {
            let enc = hook(n, incl);
            let res = if incl {
                let k = (1..=4).find(|w| n + w <= CAP[w - 1]).unwrap();
                check_pkglen(&enc, n + k, Some(n))
            } else {
                check_pkglen(&enc, n, None)
            };
            if let Err(e) = res {
                cx.violation(
                    format!("PkgLength for {} length {}: {}", if incl { "self-inclusive content" } else { "exclusive" }, n, e),
                    obj(vec![("encoding", hex(&enc).into()), ("n", n.into()), ("include_self", incl.into())]),
                );
                return;
            }
            count += 1;
            n += 1;
        }
        cx.rep.evaluations += count;
        cx.rep.observations += count;
        // negative control: a corrupted copy of an accepted encoding must be rejected by the decoder
        if count > 0 {
            let n0 = lo as usize + (bi as usize % 97);
            if n0 < lim {
                let mut enc = hook(n0, incl);
                let k = bi as usize % enc.len();
                enc[k] ^= 1 << (bi % 8);
                let total = if incl { n0 + (1..=4).find(|w| n0 + w <= CAP[w - 1]).unwrap() } else { n0 };
                cx.rep.neg_controls += 1;
                if check_pkglen(&enc, total, if incl { Some(n0) } else { None }).is_ok() {
                    cx.rep.inconclusive(format!("negative control: corrupted PkgLength {} accepted for {}", hex(&enc), n0));
                }
            }
        }
        cx.rep.cov_n(if incl { "hook_inclusive_lengths" } else { "hook_exclusive_lengths" }, count);
        cx.rep.distinct(&(incl, bi));
        if bi == 0 && incl {
            cx.sample(|| obj(vec![("n", 63usize.into()), ("include_self", true.into()), ("encoding", hex(&hook(63, true)).into())]));
        }
    }));
    if cfg.scale_pct >= 100 && cfg.replay.is_none() {
        rep.exhaustive("C07 hook: all 2^28 exclusive lengths and all 2^28-4 self-inclusive content lengths");
    }
    // (b) call-site ties
    // 0..=300 and 65 500..=65 580 also walk the *inner* BufferSize / element-count integer of Buffer,
    // BufferData, ResourceTemplate and VarPackage across its own 255/256 and 65 535/65 536 width steps
    let mut sizes: Vec<usize> = (0..=300).collect();
    sizes.extend(4000..=4200);
    sizes.extend(65_500..=65_580);
    if thorough {
        sizes.extend((1 << 20) - 8..=(1 << 20) + 2);
    }
    let nk = PREFIXED_KINDS.len() as u64;
    let ns = sizes.len() as u64;
    // path shapes for the kinds that carry a name: (rooted, segments)
    let shapes: [(bool, usize); 6] = [(false, 1), (true, 1), (false, 2), (true, 2), (false, 3), (true, 7)];
    rep.merge(par_cases(cfg, "pkglen.callsites", nk * ns * 6, |cx| {
        let shape = (cx.idx / (nk * ns)) as usize;
        let k = ((cx.idx / ns) % nk) as usize;
        let pad = sizes[(cx.idx % ns) as usize];
        let has_path = matches!(k, 4 | 5 | 6 | 7 | 8 | 14);
        if shape > 0 && !has_path {
            return;
        }
        let mut r = cx.rng.clone();
        let (root, nseg) = shapes[shape];
        let t = padded_with_path(k, pad, &mut r, root, nseg);
        let bytes = build_bytes(&t, false);
        cx.eval();
        cx.obs();
        let oplen = if bytes[0] == 0x5B { 2 } else { 1 };
        let (_, w) = match decode_pkg_length(&bytes, oplen) {
            Ok(x) => x,
            Err(e) => {
                cx.violation(format!("{}: emitted PkgLength is malformed: {}", PREFIXED_KINDS[k], e), obj(vec![("head", hex(&bytes[..bytes.len().min(16)]).into())]));
                return;
            }
        };
        let total = bytes.len() - oplen;
        let content = total - w;
        if let Err(e) = check_pkglen(&bytes[oplen..oplen + w], total, Some(content)) {
            cx.violation(
                format!("{} with a {}-byte content: PkgLength {}", PREFIXED_KINDS[k], content, e),
                obj(vec![("head", hex(&bytes[..bytes.len().min(16)]).into()), ("object_bytes", bytes.len().into())]),
            );
            return;
        }
        cx.rep.cov(&format!("callsite:{}:width{}", PREFIXED_KINDS[k], w));
        cx.rep.distinct(&(k, content, shape));
    }));
    // (c) field-entry widths through the public API
    let mut widths: Vec<usize> = (0..=300).collect();
    widths.extend(4000..=4200);
    widths.extend((1 << 20) - 8..=(1 << 20) + 8);
    widths.extend((1 << 28) - 8..(1 << 28));
    let nw = widths.len() as u64;
    rep.merge(par_cases(cfg, "pkglen.fieldwidths", nw * 2, |cx| {
        let w = widths[(cx.idx / 2) as usize];
        field_width_case(cx, w, cx.idx % 2 == 0);
    }));
    if thorough {
        // every width below 2^28 through Field::new, both entry kinds
        rep.exhaustive("C07 field widths: every n < 2^28 through Field::new (named and reserved)");
        rep.merge(par_cases(cfg, "pkglen.fieldwidths_all", 8192, |cx| {
            let named = cx.idx % 2 == 0;
            let bi = cx.idx / 2;
            let blk = (1usize << 28) / 4096;
            for w in (bi as usize * blk)..((bi as usize + 1) * blk) {
                let f = aml::Field::new(
                    aml::Path::new("FLDX"),
                    aml::FieldAccessType::Any,
                    aml::FieldLockRule::NoLock,
                    aml::FieldUpdateRule::Preserve,
                    vec![if named { aml::FieldEntry::Named(*b"ABCD", w) } else { aml::FieldEntry::Reserved(w) }],
                );
                let b = to_vec(&f);
                // 5B 81 PkgLength(1) FLDX flags [name|00] PkgLenX
                let at = 2 + 1 + 4 + 1 + if named { 4 } else { 1 };
                if let Err(e) = check_pkglen(&b[at..], w, None) {
                    cx.violation(format!("field entry width {}: {}", w, e), obj(vec![("bytes", hex(&b).into())]));
                    return;
                }
            }
            cx.rep.evaluations += blk as u64;
            cx.rep.observations += blk as u64;
        }));
    }
    rep
}

fn field_width_case(cx: &mut CaseCtx, w: usize, named: bool) {
    let e = if named { FieldE::Named(*b"WXYZ", w) } else { FieldE::Reserved(w) };
    let t = Term::Field { path: PathT::one(b"FLDS"), access: 0, lock: 0, update: 0, entries: vec![FieldE::Reserved(1), e, FieldE::Named(*b"TAIL", 7)] };
    cx.eval();
    if check_term(cx, &t, false).is_some() {
        cx.rep.cov(if named { "fieldwidth:named" } else { "fieldwidth:reserved" });
        cx.rep.distinct(&(named, w));
    }
}

// ------------------------------------------------------------------------------------ C08

#[derive(Default)]
struct Small {
    buf: [u8; 16],
    n: usize,
}
impl AmlSink for Small {
    fn byte(&mut self, b: u8) {
        if self.n < 16 {
            self.buf[self.n] = b;
        }
        self.n += 1;
    }
}

/// Specification encoding of an integer constant (ACPI 6.5 §20.2.3).
fn spec_int(v: u64, out: &mut [u8; 9]) -> usize {
    match v {
        0 => {
            out[0] = 0x00;
            1
        }
        1 => {
            out[0] = 0x01;
            1
        }
        _ => {
            let (p, w) = if v <= 0xFF {
                (0x0A, 1)
            } else if v <= 0xFFFF {
                (0x0B, 2)
            } else if v <= 0xFFFF_FFFF {
                (0x0C, 4)
            } else {
                (0x0E, 8)
            };
            out[0] = p;
            for i in 0..w {
                out[1 + i] = (v >> (8 * i)) as u8;
            }
            1 + w
        }
    }
}

fn decode_int(b: &[u8]) -> Option<u64> {
    let w = match b.first()? {
        0x00 => return if b.len() == 1 { Some(0) } else { None },
        0x01 => return if b.len() == 1 { Some(1) } else { None },
        0x0A => 1,
        0x0B => 2,
        0x0C => 4,
        0x0E => 8,
        _ => return None,
    };
    if b.len() != 1 + w {
        return None;
    }
    let mut v = 0u64;
    for i in 0..w {
        v |= (b[1 + i] as u64) << (8 * i);
    }
    Some(v)
}

/// carriers: bit0 u8, bit1 u16, bit2 u32, bit3 u64, bit4 usize
fn int_case(v: u64, carriers: u8) -> Result<(), (String, String)> {
    let mut want = [0u8; 9];
    let wn = spec_int(v, &mut want);
    let mut first: Option<([u8; 16], usize)> = None;
    for c in 0..5u8 {
        if carriers & (1 << c) == 0 {
            continue;
        }
        let mut s = Small::default();
        match c {
            0 => (v as u8).to_aml_bytes(&mut s),
            1 => (v as u16).to_aml_bytes(&mut s),
            2 => (v as u32).to_aml_bytes(&mut s),
            3 => v.to_aml_bytes(&mut s),
            _ => (v as usize).to_aml_bytes(&mut s),
        }
        let name = ["u8", "u16", "u32", "u64", "usize"][c as usize];
        if s.n > 16 || s.n != wn || s.buf[..wn] != want[..wn] {
            return Err((
                format!("integer {:#x} carried by {} is emitted as {} but the narrowest specification encoding is {}", v, name, hex(&s.buf[..s.n.min(16)]), hex(&want[..wn])),
                name.to_string(),
            ));
        }
        if decode_int(&s.buf[..s.n]) != Some(v) {
            return Err((format!("integer {:#x} carried by {} does not decode back", v, name), name.to_string()));
        }
        if let Some((fb, fnn)) = first {
            if fnn != s.n || fb[..fnn] != s.buf[..s.n] {
                return Err((format!("integer {:#x}: carriers disagree", v), name.to_string()));
            }
        } else {
            first = Some((s.buf, s.n));
        }
    }
    Ok(())
}

pub fn run_c08(cfg: &Cfg) -> Report {
    let thorough = cfg.tier == Tier::Thorough;
    let mut rep = Report::default();
    rep.rule(
        "every u8 and u16 value through every carrier at least as wide; u32 exhaustively through u32/u64/usize in the thorough tier (sampled + boundaries in quick); \
         u64/usize at all width boundaries +-2, single-bit, byte-fill patterns and random values; oracle = specification encoding written independently + decode; \
         distinct = distinct (value, carrier set) pairs judged",
    );
    rep.exhaustive("C08 all u8 values x 5 carriers; all u16 values x 4 carriers");
    // u8 and u16 exhaustive: 65536 values in 256 blocks
    rep.merge(par_cases(cfg, "ints.u16_exhaustive", 256, |cx| {
        for lo in 0..256u64 {
            let v = cx.idx * 256 + lo;
            let carriers = if v <= 0xFF { 0b11111 } else { 0b11110 };
            cx.rep.evaluations += 1;
            cx.rep.observations += (carriers as u8).count_ones() as u64;
            if let Err((m, _)) = int_case(v, carriers) {
                cx.violation(m, obj(vec![("value", J::Int(v as i128))]));
                return;
            }
            cx.rep.distinct(&v);
        }
        cx.rep.cov_n("values_u16_exhaustive", 256);
        if cx.idx == 1 {
            let mut sk = Small::default();
            0x100u16.to_aml_bytes(&mut sk);
            cx.sample(|| obj(vec![("value", 0x100u64.into()), ("carriers", "u16,u32,u64,usize".into()), ("emitted_by_u16", hex(&sk.buf[..sk.n.min(16)]).into())]));
        }
    }));
    // boundaries, single bits, byte fills
    let mut specials: Vec<u64> = Vec::new();
    for b in [8u32, 16, 32, 64] {
        let top: u128 = 1u128 << b;
        for d in -2i128..=2 {
            let v = top as i128 + d;
            if v >= 0 && v <= u64::MAX as i128 {
                specials.push(v as u64);
            }
        }
    }
    for i in 0..64 {
        specials.push(1u64 << i);
        specials.push(!(1u64 << i));
        specials.push((1u64 << i).wrapping_sub(1));
    }
    for f in 0..=255u64 {
        specials.push(f * 0x0101_0101_0101_0101);
        specials.push(f * 0x0101_0101);
        specials.push(f * 0x0101);
    }
    let nsp = specials.len() as u64;
    rep.merge(par_cases(cfg, "ints.special", nsp, |cx| {
        let v = specials[cx.idx as usize];
        let carriers = 0b11000 | if v <= u32::MAX as u64 { 0b100 } else { 0 } | if v <= 0xFFFF { 0b10 } else { 0 } | if v <= 0xFF { 1 } else { 0 };
        cx.eval();
        cx.obs();
        if let Err((m, _)) = int_case(v, carriers) {
            cx.violation(m, obj(vec![("value", J::Int(v as i128))]));
            return;
        }
        cx.rep.distinct(&v);
        if cx.idx % 97 == 5 {
            let mut sk = Small::default();
            v.to_aml_bytes(&mut sk);
            cx.sample(|| obj(vec![("value", format!("{:#x}", v).into()), ("carrier_mask", (carriers as u64).into()), ("emitted_by_u64", hex(&sk.buf[..sk.n.min(16)]).into())]));
        }
    }));
    // random u64 / u32
    let nrand = cfg.scaled(if thorough { 1_000_000_000 } else { 2_000_000 });
    let per = 4096u64;
    rep.merge(par_cases(cfg, "ints.random", nrand / per, |cx| {
        let mut r = cx.rng.clone();
        for i in 0..per {
            let v = if i % 2 == 0 { r.next_u64() } else { r.next_u64() >> (r.below(64) as u32) };
            let carriers = 0b11000 | if v <= u32::MAX as u64 { 0b100 } else { 0 } | if v <= 0xFFFF { 0b10 } else { 0 } | if v <= 0xFF { 1 } else { 0 };
            if let Err((m, _)) = int_case(v, carriers) {
                cx.violation(m, obj(vec![("value", J::Int(v as i128))]));
                return;
            }
            if !thorough {
                cx.rep.distinct(&v);
            }
        }
        cx.rep.evaluations += per;
        cx.rep.observations += per * 2;
        cx.rep.distinct(&("randblock", cx.idx));
    }));
    if thorough {
        rep.exhaustive("C08 all u32 values through u32, u64 and usize carriers");
        rep.merge(par_cases(cfg, "ints.u32_exhaustive", 1 << 16, |cx| {
            for lo in 0..(1u64 << 16) {
                let v = (cx.idx << 16) | lo;
                if let Err((m, _)) = int_case(v, 0b11100) {
                    cx.violation(m, obj(vec![("value", J::Int(v as i128))]));
                    return;
                }
            }
            cx.rep.evaluations += 1 << 16;
            cx.rep.observations += 3 << 16;
        }));
    }
    rep
}

// ------------------------------------------------------------------------------------ C09

fn spec_name_string(p: &PathT) -> Vec<u8> {
    let mut b = Vec::new();
    if p.root {
        b.push(b'\\');
    }
    match p.segs.len() {
        1 => {}
        2 => b.push(0x2E),
        n => {
            b.push(0x2F);
            b.push(n as u8);
        }
    }
    for s in &p.segs {
        b.extend_from_slice(s);
    }
    b
}

fn decode_name_string(b: &[u8]) -> Option<PathT> {
    let mut i = 0;
    let mut root = false;
    if b.first() == Some(&b'\\') {
        root = true;
        i = 1;
    }
    let n = match b.get(i)? {
        0x2E => {
            i += 1;
            2
        }
        0x2F => {
            let n = *b.get(i + 1)? as usize;
            i += 2;
            n
        }
        _ => 1,
    };
    if b.len() != i + 4 * n || n == 0 {
        return None;
    }
    Some(PathT { root, segs: (0..n).map(|k| [b[i + 4 * k], b[i + 4 * k + 1], b[i + 4 * k + 2], b[i + 4 * k + 3]]).collect() })
}

fn path_case(cx: &mut CaseCtx, p: &PathT) -> bool {
    let s = p.to_string();
    cx.eval();
    cx.obs();
    let got = match catches(|| to_vec(&aml::Path::new(&s))) {
        Ok(b) => b,
        Err(e) => {
            cx.violation(format!("well-formed path {:?} ({} segments) is refused: {}", short(&s), p.segs.len(), e), J::Null);
            return false;
        }
    };
    let want = spec_name_string(p);
    if got != want {
        cx.violation(
            format!("path {:?} ({} segments, rooted={}) is not emitted in the specification's NameString form", short(&s), p.segs.len(), p.root),
            obj(vec![("emitted_head", hex(&got[..got.len().min(24)]).into()), ("expected_head", hex(&want[..want.len().min(24)]).into())]),
        );
        return false;
    }
    if decode_name_string(&got).as_ref() != Some(p) {
        cx.violation(format!("path {:?} does not decode back to the same rootedness and segments", short(&s)), J::Null);
        return false;
    }
    true
}

fn short(s: &str) -> String {
    if s.len() > 60 {
        format!("{}…", &s[..60])
    } else {
        s.to_string()
    }
}

const LEAD: &[u8] = b"ABCDEFGHIJKLMNOPQRSTUVWXYZ_";
const REST: &[u8] = b"ABCDEFGHIJKLMNOPQRSTUVWXYZ_0123456789";

pub fn run_c09(cfg: &Cfg) -> Report {
    let thorough = cfg.tier == Tier::Thorough;
    let mut rep = Report::default();
    rep.rule(
        "Path::new over segment counts 1..=255 x rooted/unrooted; every character position exhaustively over its alphabet; random combinations; malformed strings with one \
         segment of length 0..3 or 5..8 at every position of 1..6-segment paths (must be refused); each of the 11 path-taking constructors parsed back with counts {1,2,3,4,254,255}",
    );
    rep.exhaustive("C09 segment counts 1..=255 x rooted; each of 4 character positions over its full alphabet");
    rep.merge(par_cases(cfg, "names.counts", 255 * 2, |cx| {
        let n = 1 + (cx.idx / 2) as usize;
        let mut r = cx.rng.clone();
        let p = PathT { root: cx.idx % 2 == 1, segs: (0..n).map(|_| gen_seg(&mut r)).collect() };
        if path_case(cx, &p) {
            cx.rep.distinct(&(n, p.root));
            cx.rep.cov(match n {
                1 => "form:single",
                2 => "form:dual",
                _ => "form:multi",
            });
            if n == 3 {
                cx.sample(|| obj(vec![("path", p.to_string().into()), ("emitted", hex(&spec_name_string(&p)).into())]));
            }
        }
    }));
    // each position over its alphabet: (pos 0..4) x alphabet x (segment index in 1..3-segment paths)
    rep.merge(par_cases(cfg, "names.alphabet", (27 + 3 * 37) * 6, |cx| {
        let variant = (cx.idx % 6) as usize; // which segment / path length
        let ci = (cx.idx / 6) as usize;
        let (pos, ch) = if ci < 27 { (0, LEAD[ci]) } else { (1 + (ci - 27) / 37, REST[(ci - 27) % 37]) };
        let mut r = cx.rng.clone();
        let nseg = [1, 2, 2, 3, 3, 4][variant];
        let which = [0, 0, 1, 1, 2, 3][variant];
        let mut p = PathT { root: r.bool(), segs: (0..nseg).map(|_| gen_seg(&mut r)).collect() };
        p.segs[which][pos] = ch;
        if path_case(cx, &p) {
            cx.rep.distinct(&(pos, ch, variant));
        }
    }));
    let nrand = cfg.scaled(if thorough { 20_000_000 } else { 200_000 });
    rep.merge(par_cases(cfg, "names.random", nrand, |cx| {
        let mut r = cx.rng.clone();
        // names here need not avoid the CALn convention: no parsing of invocations is involved
        let n = 1 + r.below(if cx.idx % 10 == 0 { 255 } else { 6 }) as usize;
        let p = PathT { root: r.bool(), segs: (0..n).map(|_| [*r.pick(LEAD), *r.pick(REST), *r.pick(REST), *r.pick(REST)]).collect() };
        if path_case(cx, &p) {
            cx.rep.distinct(&p);
        }
    }));
    // malformed: must be refused
    rep.merge(par_cases(cfg, "names.malformed", 6 * 6 * 8 * 2 + 12, |cx| {
        let mut r = cx.rng.clone();
        let s: String = if cx.idx >= 6 * 6 * 8 * 2 {
            // (a second or third leading backslash makes the first segment five or six characters long)
            ["", "\\", ".", "ABCD.", "\\\\ABCD", "\\\\\\ABCD", "\\\\_SB_.PCI0", "\\.ABCD", ".ABCD", "ABCD..EFGH", "\\ABCD.", "AB.CD"][(cx.idx - 6 * 6 * 8 * 2) as usize].to_string()
        } else {
            let root = cx.idx % 2 == 1;
            let i = cx.idx / 2;
            let badlen = [0usize, 1, 2, 3, 5, 6, 7, 8][(i % 8) as usize];
            let nseg = 1 + ((i / 8) % 6) as usize;
            let at = ((i / 48) % 6) as usize;
            if at >= nseg {
                return;
            }
            let mut parts: Vec<String> = (0..nseg).map(|_| String::from_utf8(gen_seg(&mut r).to_vec()).unwrap()).collect();
            parts[at] = (0..badlen).map(|k| if k == 0 { *r.pick(LEAD) as char } else { *r.pick(REST) as char }).collect();
            format!("{}{}", if root { "\\" } else { "" }, parts.join("."))
        };
        cx.eval();
        cx.obs();
        match catches(|| to_vec(&aml::Path::new(&s))) {
            Err(_) => {
                cx.rep.cov("malformed_refused");
                cx.rep.distinct(&s);
            }
            Ok(b) => cx.violation(format!("malformed path {:?} is accepted and emitted instead of being refused", s), obj(vec![("emitted", hex(&b).into())])),
        }
    }));
    // malformed in more than one place: dots moved / added inside a well-formed string (same length),
    // and short random strings over a dot-heavy alphabet. Anything that is not a well-formed path by
    // the harness's own definition must be refused.
    let nmm = cfg.scaled(if thorough { 2_000_000 } else { 60_000 });
    rep.merge(par_cases(cfg, "names.malformed_multi", nmm, |cx| {
        let mut r = cx.rng.clone();
        let s: String = if cx.idx % 2 == 0 {
            let n = 1 + r.usize_below(6);
            let p = PathT { root: r.chance(1, 3), segs: (0..n).map(|_| gen_seg(&mut r)).collect() };
            let mut b = p.to_string().into_bytes();
            for _ in 0..1 + r.below(3) {
                let k = r.usize_below(b.len());
                b[k] = if b[k] == b'.' { *r.pick(LEAD) } else { b'.' };
            }
            String::from_utf8(b).unwrap()
        } else {
            let n = r.usize_below(25);
            (0..n).map(|_| *r.pick(b"AB_9...\\") as char).collect()
        };
        // the harness's own well-formedness rule
        let body = s.strip_prefix('\\').unwrap_or(&s);
        let well_formed = !body.is_empty()
            && body.split('.').all(|seg| seg.len() == 4 && seg.bytes().enumerate().all(|(i, c)| if i == 0 { LEAD.contains(&c) } else { REST.contains(&c) }));
        if well_formed {
            return;
        }
        // strings whose every segment has 4 bytes but contains a character outside the name alphabet
        // (digit first, a second backslash) are not covered by the property's refusal clause
        if !body.is_empty() && body.split('.').all(|seg| seg.len() == 4) {
            return;
        }
        cx.eval();
        cx.obs();
        match catches(|| to_vec(&aml::Path::new(&s))) {
            Err(_) => {
                cx.rep.cov("malformed_multi_refused");
                cx.rep.distinct(&s);
            }
            Ok(b) => cx.violation(format!("malformed path {:?} (a segment is not exactly four characters) is accepted and emitted", s), obj(vec![("emitted", hex(&b).into())])),
        }
    }));
    // the 11 path-taking constructors, parsed back
    let counts = [1usize, 2, 3, 4, 254, 255];
    rep.merge(par_cases(cfg, "names.constructors", 11 * 6 * 2, |cx| {
        let c = (cx.idx / 12) as usize;
        let n = counts[((cx.idx / 2) % 6) as usize];
        let mut r = cx.rng.clone();
        let mut p = PathT { root: cx.idx % 2 == 1, segs: (0..n).map(|_| gen_seg(&mut r)).collect() };
        let t = match c {
            0 => Term::Name(p, Box::new(Term::One)),
            1 => Term::Device(p, vec![Term::Zero]),
            2 => Term::Scope(p, vec![Term::Ones]),
            3 => Term::Method { path: p, args: 1, serialized: false, body: vec![] },
            4 => Term::Field { path: p, access: 3, lock: 1, update: 1, entries: vec![FieldE::Named(*b"ABCD", 8)] },
            5 => Term::OpRegion { path: p, space: 0, offset: Box::new(Term::U16(0x400)), length: Box::new(Term::U8(16)) },
            6 => Term::Mutex(p, 3),
            7 => Term::Acquire(p, 0xffff),
            8 => Term::Release(p),
            9 => {
                let last = p.segs.len() - 1;
                p.segs[last] = *b"CAL2";
                Term::MethodCall(p, vec![Term::One, Term::Arg(0)])
            }
            _ => Term::PowerResource { path: p, level: 1, order: 0x1234, body: vec![] },
        };
        cx.eval();
        if check_term(cx, &t, false).is_some() {
            cx.rep.cov(&format!("constructor:{}", t.ctor_name()));
            cx.rep.distinct(&(c, n, cx.idx % 2));
        }
    }));
    rep
}

// ------------------------------------------------------------------------------------ C10

fn res_case(cx: &mut CaseCtx, r: &Res) -> bool {
    // inside the domain C10 states, where acceptance is part of the property
    let r = &in_domain(r.clone());
    cx.must_accept = true;
    cx.eval();
    cx.obs();
    let mut b = Builder::new(false);
    let o = b.res(r);
    let got = to_vec(o);
    // the same descriptor delivered to a sink that implements only the mandatory byte method
    let mut bo = crate::sinks::ByteOnly::default();
    o.to_aml_bytes(&mut bo);
    drop(b);
    if bo.0 != got {
        cx.violation(
            format!("resource descriptor {:?} is delivered differently to a byte-only sink than to the vector sink", r),
            obj(vec![("vector_sink", hex(&got).into()), ("byte_only_sink", hex(&bo.0).into())]),
        );
        return false;
    }
    let want = descriptor(r);
    if got != want {
        let i = got.iter().zip(want.iter()).position(|(a, b)| a != b).unwrap_or(got.len().min(want.len()));
        cx.violation(
            format!("resource descriptor {:?} differs from the specification encoding at byte {}", r, i),
            obj(vec![("emitted", hex(&got).into()), ("expected", hex(&want).into())]),
        );
        return false;
    }
    // framing: length field equals the payload that follows
    let declared = if got[0] & 0x80 == 0 { (got[0] & 7) as usize + 1 } else { 3 + (got[1] as usize | ((got[2] as usize) << 8)) };
    if declared != got.len() {
        cx.violation(format!("resource descriptor {:?}: length field describes {} bytes, {} emitted", r, declared, got.len()), obj(vec![("emitted", hex(&got).into())]));
        return false;
    }
    if cx.idx % 64 == 0 {
        // negative control: bump the descriptor's own length field; the walker must no longer tile
        let mut p = template_payload(std::slice::from_ref(r));
        if p[0] & 0x80 != 0 {
            p[1] = p[1].wrapping_add(1);
        } else {
            p[0] = (p[0] & 0xf8) | ((p[0] & 7) + 1) % 8;
        }
        cx.rep.neg_controls += 1;
        if walk_descriptors(&p).map(|w| w.len() == 2).unwrap_or(false) {
            cx.rep.inconclusive(format!("negative control: descriptor walker accepts a corrupted length field in {}", hex(&p)));
        }
    }
    true
}

fn template_case(cx: &mut CaseCtx, rs: &[Res]) -> bool {
    let rs = &rs.iter().cloned().map(in_domain).collect::<Vec<Res>>()[..];
    cx.must_accept = true;
    cx.eval();
    cx.obs();
    let t = Term::ResourceTemplate(rs.to_vec());
    let bytes = build_bytes(&t, false);
    let payload = template_payload(rs);
    let fail = |cx: &mut CaseCtx, m: String| {
        cx.violation(m, obj(vec![("descriptors", rs.len().into()), ("head", hex(&bytes[..bytes.len().min(32)]).into()), ("first", format!("{:?}", rs.first()).into())]));
        false
    };
    match parse_all(&bytes, &|_| None) {
        Ok((v, _)) => match &v[..] {
            [P::Buffer { size, bytes: body }] => {
                match **size {
                    P::Int { v, width } => {
                        if v as usize != body.len() {
                            return fail(cx, format!("resource template: declared buffer size {} but {} payload bytes present", v, body.len()));
                        }
                        if width != narrowest(v) {
                            return fail(cx, format!("resource template: buffer size {} not in its narrowest integer encoding", v));
                        }
                    }
                    _ => return fail(cx, "resource template: buffer size is not an integer constant".into()),
                }
                if *body != payload {
                    let i = body.iter().zip(payload.iter()).position(|(a, b)| a != b).unwrap_or(body.len().min(payload.len()));
                    return fail(cx, format!("resource template payload differs from descriptors + end tag at byte {} ({} vs {} bytes)", i, body.len(), payload.len()));
                }
                match walk_descriptors(body) {
                    Ok(w) if w.len() == rs.len() + 1 => true,
                    Ok(w) => fail(cx, format!("resource template: walk finds {} descriptors, {} + end tag were added", w.len(), rs.len())),
                    Err(e) => fail(cx, format!("resource template does not tile by its descriptors' length fields: {}", e)),
                }
            }
            _ => fail(cx, "resource template does not parse as a single Buffer".into()),
        },
        Err(e) => fail(cx, format!("resource template rejected by the AML parser: {}", e)),
    }
}

pub fn run_c10(cfg: &Cfg) -> Report {
    let thorough = cfg.tier == Tier::Thorough;
    let mut rep = Report::default();
    rep.rule(
        "every descriptor form with boundary-biased values and all flag / cacheability / Option combinations exhaustively, compared byte-for-byte with an offset-addressed \
         reference written from ACPI 6.5 §6.4 (self-tested against iasl output); templates of 0..n descriptors in random order with payload sizes across 63/64, 255/256, \
         4095/4096 and 65535/65536, parsed, size-checked and walked by the descriptors' own length fields",
    );
    rep.exhaustive("C10 flag combinations: 16 interrupt flag sets; 3 widths x {8 memory type flags, io, bus} x translation present/absent");
    // exhaustive flag combos
    rep.merge(par_cases(cfg, "res.flags", 16 + 2 + 3 * 10 * 2, |cx| {
        let mut r = cx.rng.clone();
        let res = if cx.idx < 16 {
            let f = cx.idx;
            Res::Irq { consumer: f & 1 == 1, edge: f & 2 == 2, low: f & 4 == 4, shared: f & 8 == 8, num: r.u32b() }
        } else if cx.idx < 18 {
            Res::Mem32 { rw: cx.idx == 17, base: r.u32b(), len: r.u32b() }
        } else {
            let i = cx.idx - 18;
            let w = [AsWidth::W16, AsWidth::W32, AsWidth::W64][(i / 20) as usize];
            let v = (i % 20) / 2;
            let trans = i % 2 == 1;
            let (ty, cache, rw) = if v < 8 { (0u8, (v / 2) as u8, v % 2 == 1) } else if v == 8 { (1, 0, false) } else { (2, 0, false) };
            Res::AddrSpace { w, ty, cache, rw, min: 0x10, max: 0x1f, trans: if trans && ty != 2 { Some(0x1000) } else { None } }
        };
        if res_case(cx, &res) {
            cx.rep.distinct(&format!("{:?}", res));
            cx.rep.cov("flag_combination");
        }
    }));
    let n = cfg.scaled(if thorough { 30_000_000 } else { 300_000 });
    rep.merge(par_cases(cfg, "res.random", n, |cx| {
        let mut r = cx.rng.clone();
        let res = gen_res(&mut r);
        if res_case(cx, &res) {
            let kind = match &res {
                Res::Mem32 { .. } => "memory32fixed".to_string(),
                Res::Io { .. } => "io".to_string(),
                Res::Irq { .. } => "interrupt".to_string(),
                Res::Reg(_) => "register".to_string(),
                Res::AddrSpace { w, ty, .. } => format!("addrspace:{:?}:{}", w, ["memory", "io", "bus"][*ty as usize]),
            };
            cx.rep.cov(&format!("descriptor:{}", kind));
            cx.rep.distinct(&format!("{:?}", res));
            if cx.idx % 997 == 0 {
                cx.sample(|| obj(vec![("descriptor", format!("{:?}", res).into()), ("bytes", hex(&descriptor(&res)).into())]));
            }
        }
    }));
    // templates: random order/number
    let nt = cfg.scaled(if thorough { 3_000_000 } else { 40_000 });
    rep.merge(par_cases(cfg, "res.templates", nt, |cx| {
        let mut r = cx.rng.clone();
        let k = match r.below(10) {
            0 => 0,
            1 => 1,
            2 => 2,
            _ => r.below(30),
        };
        let mut rs: Vec<Res> = (0..k).map(|_| gen_res(&mut r)).collect();
        // a quarter of the templates list some descriptor twice (adjacent, or further apart)
        if !rs.is_empty() && cx.idx % 4 == 0 {
            let i = r.usize_below(rs.len());
            let d = rs[i].clone();
            let at = if r.bool() { i + 1 } else { r.usize_below(rs.len() + 1) };
            rs.insert(at, d.clone());
            if r.chance(1, 3) {
                rs.insert(at, d);
            }
            cx.rep.cov("template_with_repeated_descriptor");
        }
        if template_case(cx, &rs) {
            cx.rep.distinct(&(k, template_payload(&rs).len()));
        }
    }));
    // descriptors whose own encoding ends in the end-tag byte pattern 79 00 (or in a lone 79), in the
    // last and in other positions: the template must still gain its own end tag
    rep.merge(par_cases(cfg, "res.endtag_lookalike", 11 * 3 * 8, |cx| {
        let mut r = cx.rng.clone();
        let k = cx.idx % 11;
        let pos = (cx.idx / 11) % 3; // 0 last, 1 first, 2 only
        let lo = r.below(1 << 16);
        let look = match k {
            0 => Res::Io { min: r.u16b(), max: r.u16b(), align: 0x79, len: 0 },
            1 => Res::Mem32 { rw: r.bool(), base: r.u32b(), len: 0x0079_0000 | lo as u32 },
            2 => Res::Irq { consumer: r.bool(), edge: r.bool(), low: r.bool(), shared: r.bool(), num: 0x0079_0000 | lo as u32 },
            3 => Res::Reg(GasArgEq { space: r.below(13) as u8, width: r.u8b(), offset: r.u8b(), access: r.below(5) as u8, addr: (0x0079u64 << 48) | r.below(1 << 48) }),
            4 => {
                let min = r.below(0xff00);
                Res::AddrSpace { w: AsWidth::W16, ty: r.below(3) as u8, cache: 0, rw: false, min, max: min + 0x78, trans: None }
            }
            5 => {
                let len = 0x0079_0000u64 | lo;
                let min = r.below(0x1000_0000);
                Res::AddrSpace { w: AsWidth::W32, ty: 0, cache: r.below(4) as u8, rw: r.bool(), min, max: min + len - 1, trans: Some(r.below(1 << 32)) }
            }
            6 => {
                let len = (0x0079u64 << 48) | r.below(1 << 48);
                let min = r.below(1 << 40);
                Res::AddrSpace { w: AsWidth::W64, ty: 1, cache: 0, rw: false, min, max: min + len - 1, trans: None }
            }
            7 => Res::Io { min: r.u16b(), max: r.u16b(), align: r.u8b(), len: 0x79 },
            8 => Res::Mem32 { rw: true, base: r.u32b(), len: 0x7900_0000 | lo as u32 },
            9 => Res::Irq { consumer: true, edge: false, low: false, shared: false, num: 0x7900_0000 | lo as u32 },
            _ => Res::Io { min: 0x79, max: 0x7900, align: 0x79, len: 0x79 },
        };
        let mut rs: Vec<Res> = (0..r.below(4)).map(|_| gen_res(&mut r)).collect();
        match pos {
            0 => rs.push(look),
            1 => rs.insert(0, look),
            _ => rs = vec![look],
        }
        if template_case(cx, &rs) {
            cx.rep.cov("endtag_lookalike_descriptor");
            cx.rep.distinct(&(k, pos, format!("{:?}", rs.last())));
        }
    }));
    // template payload sizes across the width boundaries: 12-byte and 8-byte descriptors
    let mut targets: Vec<usize> = Vec::new();
    for b in [64usize, 256, 4096, 65536] {
        for d in 0..=40 {
            targets.push(b + 20 - d);
        }
    }
    rep.merge(par_cases(cfg, "res.template_sizes", targets.len() as u64, |cx| {
        let target = targets[cx.idx as usize]; // wanted payload size incl. the 2-byte end tag
        let left = target.saturating_sub(2);
        let mut rs = Vec::new();
        // left = 8a + 12b + 9c (IO, Memory32Fixed, extended interrupt descriptors)
        let mut sol = None;
        'find: for c in 0..8usize {
            for b in 0..3usize {
                if left >= 9 * c + 12 * b && (left - 9 * c - 12 * b) % 8 == 0 {
                    sol = Some(((left - 9 * c - 12 * b) / 8, b, c));
                    break 'find;
                }
            }
        }
        let (a, b, c) = sol.unwrap_or((left / 8, 0, 0));
        for i in 0..a {
            rs.push(Res::Io { min: i as u16, max: 2, align: 3, len: 4 });
        }
        for i in 0..b {
            rs.push(Res::Mem32 { rw: i & 1 == 0, base: left as u32, len: 7 });
        }
        for i in 0..c {
            rs.push(Res::Irq { consumer: true, edge: i & 1 == 0, low: false, shared: true, num: i as u32 });
        }
        if template_case(cx, &rs) {
            let sz = template_payload(&rs).len();
            cx.rep.cov(&format!(
                "template_payload_class:{}",
                if sz < 64 { "<64" } else if sz < 256 { "64..255" } else if sz < 4096 { "256..4095" } else if sz < 65536 { "4096..65535" } else { ">=65536" }
            ));
            cx.rep.distinct(&("sized", sz));
        }
    }));
    rep
}

// ------------------------------------------------------------------------------------ C16

fn eisa_decompress(v: u32) -> [u8; 7] {
    // the constant holds the compressed id most-significant byte first
    let be = u32::from_be_bytes(v.to_le_bytes());
    let hx = |n: u32| b"0123456789ABCDEF"[(n & 0xf) as usize];
    [
        0x40 + ((be >> 26) & 0x1f) as u8,
        0x40 + ((be >> 21) & 0x1f) as u8,
        0x40 + ((be >> 16) & 0x1f) as u8,
        hx(be >> 12),
        hx(be >> 8),
        hx(be >> 4),
        hx(be),
    ]
}

fn eisa_case(id: &[u8; 7]) -> Result<(), String> {
    let s = std::str::from_utf8(id).unwrap();
    let mut sink = Small::default();
    aml::EISAName::new(s).to_aml_bytes(&mut sink);
    let v = decode_int(&sink.buf[..sink.n.min(16)]).ok_or_else(|| format!("EISA id {} is not emitted as an integer constant: {}", s, hex(&sink.buf[..sink.n.min(16)])))?;
    if v > u32::MAX as u64 {
        return Err(format!("EISA id {} emitted as a constant wider than 32 bits", s));
    }
    let back = eisa_decompress(v as u32);
    if &back != id {
        return Err(format!("EISA id {} is emitted as {:#010x}, which decompresses to {}", s, v, String::from_utf8_lossy(&back)));
    }
    Ok(())
}

fn uuid_unparse(b: &[u8]) -> String {
    let order = [3usize, 2, 1, 0, 5, 4, 7, 6, 8, 9, 10, 11, 12, 13, 14, 15];
    let mut s = String::new();
    for (k, i) in order.iter().enumerate() {
        if k == 4 || k == 6 || k == 8 || k == 10 {
            s.push('-');
        }
        s.push_str(&format!("{:02X}", b[*i]));
    }
    s
}

fn uuid_case(cx: &mut CaseCtx, s: &str) -> bool {
    cx.eval();
    cx.obs();
    let bytes = match catches(|| to_vec(&aml::Uuid::new(s))) {
        Ok(b) => b,
        Err(e) => {
            cx.violation(format!("canonical UUID {} is refused: {}", s, e), J::Null);
            return false;
        }
    };
    match parse_all(&bytes, &|_| None) {
        Ok((v, _)) => match &v[..] {
            [P::Buffer { size, bytes: body }] if **size == (P::Int { v: 16, width: 1 }) && body.len() == 16 => {
                let back = uuid_unparse(body);
                if !back.eq_ignore_ascii_case(s) {
                    cx.violation(format!("UUID {} is emitted as bytes {} which convert back to {}", s, hex(body), back), J::Null);
                    return false;
                }
                true
            }
            _ => {
                cx.violation(format!("UUID {} is not emitted as a 16-byte Buffer", s), obj(vec![("bytes", hex(&bytes).into())]));
                false
            }
        },
        Err(e) => {
            cx.violation(format!("UUID {} emits unparseable AML: {}", s, e), obj(vec![("bytes", hex(&bytes).into())]));
            false
        }
    }
}

pub fn run_c16(cfg: &Cfg) -> Report {
    let thorough = cfg.tier == Tier::Thorough;
    let mut rep = Report::default();
    rep.rule(
        "EISA ids: every character position exhaustively with the others random, plus random ids (quick) / all 26^3*16^4 ids (thorough), each emitted constant decoded at any width, \
         byte-swapped and decompressed by the specification rule; UUIDs: every nibble position x 16 digits x both cases plus random strings, parsed as Buffer(16) and converted back by inverse ToUUID; \
         malformed strings (wrong length, misplaced separator, non-hex digit) must be refused",
    );
    const HEX: &[u8] = b"0123456789ABCDEF";
    // positions exhaustive
    rep.exhaustive("C16 each EISA character position over its full alphabet; each UUID nibble position x 16 digits x 2 cases");
    rep.merge(par_cases(cfg, "eisa.positions", (3 * 26 + 4 * 16) * 64, |cx| {
        let mut r = cx.rng.clone();
        let ci = (cx.idx / 64) as usize;
        let mut id: [u8; 7] = gen_eisa(&mut r).as_bytes().try_into().unwrap();
        if ci < 78 {
            id[ci / 26] = b'A' + (ci % 26) as u8;
        } else {
            id[3 + (ci - 78) / 16] = HEX[(ci - 78) % 16];
        }
        cx.eval();
        cx.obs();
        match eisa_case(&id) {
            Ok(()) => cx.rep.distinct(&id),
            Err(e) => cx.violation(e, J::Null),
        }
        if cx.idx % 16 == 0 {
            // negative control: a corrupted constant must not decompress to the same id
            let v = crate::amlref::term::eisa_value(std::str::from_utf8(&id).unwrap()) ^ (1 << (cx.idx % 32));
            cx.rep.neg_controls += 1;
            if eisa_decompress(v) == id {
                cx.rep.inconclusive("negative control: corrupted EISA constant decompresses to the original id".to_string());
            }
        }
        // lower-case hex digits are the same id
        if ci >= 78 {
            let mut low = id;
            for c in low[3..].iter_mut() {
                *c = c.to_ascii_lowercase();
            }
            let s = std::str::from_utf8(&low).unwrap().to_string();
            let a = catches(|| to_vec(&aml::EISAName::new(&s)));
            let b = to_vec(&aml::EISAName::new(std::str::from_utf8(&id).unwrap()));
            if a.as_ref().ok() != Some(&b) {
                cx.violation(format!("EISA id {} with lower-case hex digits does not encode like its upper-case form", s), J::Null);
            }
        }
    }));
    if thorough {
        rep.exhaustive("C16 all 26^3 * 16^4 EISA identifiers");
        rep.merge(par_cases(cfg, "eisa.all", 26 * 26 * 26, |cx| {
            let l = cx.idx;
            let pre = [b'A' + (l / 676) as u8, b'A' + ((l / 26) % 26) as u8, b'A' + (l % 26) as u8];
            for h in 0..65536u32 {
                let id = [pre[0], pre[1], pre[2], HEX[(h >> 12) as usize & 15], HEX[(h >> 8) as usize & 15], HEX[(h >> 4) as usize & 15], HEX[h as usize & 15]];
                if let Err(e) = eisa_case(&id) {
                    cx.violation(e, J::Null);
                    return;
                }
            }
            cx.rep.evaluations += 65536;
            cx.rep.observations += 65536;
            cx.rep.distinct(&("letters", l));
        }));
    } else {
        let n = cfg.scaled(1_000_000);
        rep.merge(par_cases(cfg, "eisa.random", n / 1024, |cx| {
            let mut r = cx.rng.clone();
            for _ in 0..1024 {
                let id: [u8; 7] = gen_eisa(&mut r).as_bytes().try_into().unwrap();
                if let Err(e) = eisa_case(&id) {
                    cx.violation(e, J::Null);
                    return;
                }
            }
            cx.rep.evaluations += 1024;
            cx.rep.observations += 1024;
            cx.rep.distinct(&("randblock", cx.idx));
            if cx.idx == 0 {
                cx.sample(|| obj(vec![("eisa_id", "PNP0A08".into()), ("emitted", hex(&to_vec(&aml::EISAName::new("PNP0A08"))).into())]));
            }
        }));
    }
    // ids whose compressed value has zero bytes (narrow integer encodings): every letter triple with
    // product numbers that zero one or both product bytes
    rep.exhaustive("C16 all 26^3 vendor triples x product numbers {0000,0001,00FF,0100,FF00,FFFF,1000,0010}");
    rep.merge(par_cases(cfg, "eisa.narrow", 26 * 26 * 26, |cx| {
        let l = cx.idx;
        let pre = [b'A' + (l / 676) as u8, b'A' + ((l / 26) % 26) as u8, b'A' + (l % 26) as u8];
        for prod in ["0000", "0001", "00FF", "0100", "FF00", "FFFF", "1000", "0010"] {
            let p = prod.as_bytes();
            let id = [pre[0], pre[1], pre[2], p[0], p[1], p[2], p[3]];
            cx.eval();
            cx.obs();
            match eisa_case(&id) {
                Ok(()) => cx.rep.distinct(&id),
                Err(e) => {
                    cx.violation(e, J::Null);
                    return;
                }
            }
        }
        cx.rep.cov("eisa_narrow_constant_ids");
    }));
    // malformed EISA: wrong lengths, and EVERY non-hex ASCII byte at each of the four digit positions
    let non_hex: Vec<u8> = (0u8..128).filter(|c| !(*c as char).is_ascii_hexdigit()).collect();
    let nnh = non_hex.len() as u64;
    rep.exhaustive("C16 malformed: every non-hex ASCII byte at every EISA digit position and every UUID nibble position; every non-'-' ASCII byte at every UUID separator position");
    rep.merge(par_cases(cfg, "eisa.malformed", 8 + 4 * nnh, |cx| {
        let mut r = cx.rng.clone();
        let good = gen_eisa(&mut r);
        let s: String = if cx.idx < 8 {
            match cx.idx {
                0 => String::new(),
                1 => good[..6].to_string(),
                2 => format!("{}0", good),
                3 => good[..3].to_string(),
                4 => format!("{}{}", good, good),
                5 => format!("{}\u{ff10}{}", &good[..3], &good[4..]), // full-width digit zero
                6 => format!("{}\u{e9}{}", &good[..3], &good[5..]),   // 2-byte char keeping the byte length at 7
                _ => format!(" {}", &good[..6]),
            }
        } else {
            let i = cx.idx - 8;
            let pos = 3 + (i / nnh) as usize;
            let mut b = good.into_bytes();
            b[pos] = non_hex[(i % nnh) as usize];
            String::from_utf8(b).unwrap()
        };
        cx.eval();
        cx.obs();
        match catches(|| to_vec(&aml::EISAName::new(&s))) {
            Err(_) => {
                cx.rep.cov("malformed_eisa_refused");
                cx.rep.distinct(&s);
            }
            Ok(b) => cx.violation(format!("malformed EISA id {:?} is accepted", s), obj(vec![("emitted", hex(&b).into())])),
        }
    }));
    // UUID positions
    rep.merge(par_cases(cfg, "uuid.positions", 32 * 16 * 2, |cx| {
        let mut r = cx.rng.clone();
        let nib = (cx.idx / 32) as usize;
        let digit = ((cx.idx / 2) % 16) as usize;
        let lower = cx.idx % 2 == 1;
        let mut s = gen_uuid(&mut r).into_bytes();
        // nibble index -> string index (skipping separators)
        let mut k = 0;
        for (i, c) in s.clone().iter().enumerate() {
            if *c == b'-' {
                continue;
            }
            if k == nib {
                let ch = HEX[digit];
                s[i] = if lower { ch.to_ascii_lowercase() } else { ch };
            }
            k += 1;
        }
        let s = String::from_utf8(s).unwrap();
        if uuid_case(cx, &s) {
            cx.rep.distinct(&(nib, digit, lower));
        }
    }));
    let n = cfg.scaled(if thorough { 40_000_000 } else { 500_000 });
    rep.merge(par_cases(cfg, "uuid.random", n, |cx| {
        let mut r = cx.rng.clone();
        let mut s = gen_uuid(&mut r);
        if cx.idx % 3 == 0 {
            // mixed case
            s = s.chars().map(|c| if r.bool() { c.to_ascii_lowercase() } else { c.to_ascii_uppercase() }).collect();
        }
        if uuid_case(cx, &s) {
            cx.rep.distinct(&s);
            if cx.idx == 5 {
                cx.sample(|| obj(vec![("uuid", s.clone().into()), ("emitted", hex(&to_vec(&aml::Uuid::new(&s))).into())]));
            }
        }
    }));
    // malformed UUID: wrong lengths; every non-'-' ASCII byte at each separator position; every
    // non-hex ASCII byte at each nibble position
    let non_dash: Vec<u8> = (0u8..128).filter(|c| *c != b'-').collect();
    let nnd = non_dash.len() as u64;
    rep.merge(par_cases(cfg, "uuid.malformed", 12 + 4 * nnd + 32 * nnh, |cx| {
        let mut r = cx.rng.clone();
        let good = gen_uuid(&mut r);
        let s: String = if cx.idx < 12 {
            match cx.idx {
                0 => good[..35].to_string(),
                1 => format!("{}0", good),
                2 => String::new(),
                3 => good.replace('-', ""),
                4 => format!("{{{}}}", good),
                5 => format!("{}\u{ff11}{}", &good[..1], &good[2..]),
                // a complete UUID followed by a further group
                6 => format!("{}-", good),
                7 => format!("{}-00", good),
                8 => format!("{}--", good),
                9 => format!("{}-{}", good, good),
                10 => format!("-{}", good),
                _ => format!("{} ", good),
            }
        } else if cx.idx < 12 + 4 * nnd {
            let i = cx.idx - 12;
            let pos = [8usize, 13, 18, 23][(i / nnd) as usize];
            let mut b = good.into_bytes();
            b[pos] = non_dash[(i % nnd) as usize];
            String::from_utf8(b).unwrap()
        } else {
            let i = cx.idx - 12 - 4 * nnd;
            let nib = (i / nnh) as usize;
            let bad = non_hex[(i % nnh) as usize];
            let mut b = good.into_bytes();
            let mut k = 0;
            for j in 0..b.len() {
                if j == 8 || j == 13 || j == 18 || j == 23 {
                    continue;
                }
                if k == nib {
                    b[j] = bad;
                    break;
                }
                k += 1;
            }
            String::from_utf8(b).unwrap()
        };
        cx.eval();
        cx.obs();
        match catches(|| to_vec(&aml::Uuid::new(&s))) {
            Err(_) => {
                cx.rep.cov("malformed_uuid_refused");
                cx.rep.distinct(&s);
            }
            Ok(b) => cx.violation(format!("malformed UUID {:?} is accepted", s), obj(vec![("emitted", hex(&b).into())])),
        }
    }));
    // non-ASCII characters in a UUID of 36 *characters*: code points whose low byte (or low 7 bits) is
    // an ASCII hex digit or '-', Unicode decimal digits, hyphen look-alikes -- at every position
    let lookalikes: Vec<char> = {
        let mut v: Vec<char> = Vec::new();
        for c in "0123456789abcdefABCDEF-".chars() {
            for k in [0x80u32, 0x100, 0x200, 0x400, 0x4E00, 0xFF00, 0x1_0000, 0x1_D700] {
                if let Some(ch) = char::from_u32(c as u32 + k) {
                    v.push(ch);
                }
            }
        }
        v.extend(['\u{ff10}', '\u{ff21}', '\u{ff41}', '\u{661}', '\u{1d7d8}', '\u{2010}', '\u{2212}', '\u{ff0d}', '\u{e9}']);
        v
    };
    let nl = lookalikes.len() as u64;
    rep.merge(par_cases(cfg, "uuid.non_ascii", 36 * nl, |cx| {
        let mut r = cx.rng.clone();
        let good: Vec<char> = gen_uuid(&mut r).chars().collect();
        let pos = (cx.idx / nl) as usize;
        let ch = lookalikes[(cx.idx % nl) as usize];
        let s: String = good.iter().enumerate().map(|(i, c)| if i == pos { ch } else { *c }).collect();
        cx.eval();
        cx.obs();
        match catches(|| to_vec(&aml::Uuid::new(&s))) {
            Err(_) => {
                cx.rep.cov("non_ascii_uuid_refused");
                cx.rep.distinct(&s);
            }
            Ok(b) => cx.violation(format!("malformed UUID {:?} (non-ASCII character U+{:04X} at position {}) is accepted", s, ch as u32, pos), obj(vec![("emitted", hex(&b).into())])),
        }
    }));
    // the same for EISA ids: at each of the 7 positions, keeping 7 characters (more than 7 bytes), and,
    // for 2-byte characters, also keeping 7 bytes (6 characters)
    rep.merge(par_cases(cfg, "eisa.non_ascii", 7 * nl * 2, |cx| {
        let mut r = cx.rng.clone();
        let good: Vec<char> = gen_eisa(&mut r).chars().collect();
        let keep_bytes = cx.idx % 2 == 1;
        let i = cx.idx / 2;
        let pos = (i / nl) as usize;
        let ch = lookalikes[(i % nl) as usize];
        let mut before: Vec<char> = good[..pos].to_vec();
        let mut after: Vec<char> = good[pos + 1..].to_vec();
        if keep_bytes {
            // drop following (then preceding) characters until the byte length is 7 again, if possible
            for _ in 1..ch.len_utf8() {
                if !after.is_empty() {
                    after.remove(0);
                } else if !before.is_empty() {
                    before.pop();
                }
            }
        }
        let s: String = before.into_iter().chain(std::iter::once(ch)).chain(after).collect();
        cx.eval();
        cx.obs();
        match catches(|| to_vec(&aml::EISAName::new(&s))) {
            Err(_) => {
                cx.rep.cov("non_ascii_eisa_refused");
                cx.rep.distinct(&s);
            }
            Ok(b) => cx.violation(format!("malformed EISA id {:?} (non-ASCII character U+{:04X}) is accepted", s, ch as u32), obj(vec![("emitted", hex(&b).into())])),
        }
    }));
    // separators moved / duplicated / bunched while the length stays 36 and 32 hex digits remain
    rep.merge(par_cases(cfg, "uuid.moved_separators", cfg.scaled(if thorough { 200_000 } else { 20_000 }), |cx| {
        let mut r = cx.rng.clone();
        let good = gen_uuid(&mut r);
        let digits: Vec<u8> = good.bytes().filter(|c| *c != b'-').collect();
        // choose 4 separator positions among 36 that are not the canonical {8,13,18,23}
        let mut pos: Vec<usize> = Vec::new();
        match cx.idx % 4 {
            0 => {
                // move exactly one separator by +-1..3
                pos = vec![8, 13, 18, 23];
                let k = r.usize_below(4);
                let d = 1 + r.usize_below(3);
                pos[k] = if r.bool() { pos[k] + d } else { pos[k] - d };
            }
            1 => pos = vec![0, 1, 2, 3],
            2 => pos = vec![32, 33, 34, 35],
            _ => {
                while pos.len() < 4 {
                    let p = r.usize_below(36);
                    if !pos.contains(&p) {
                        pos.push(p);
                    }
                }
            }
        }
        pos.sort();
        pos.dedup();
        if pos == vec![8, 13, 18, 23] || pos.len() != 4 {
            return;
        }
        let mut s = String::new();
        let mut di = 0;
        for i in 0..36 {
            if pos.contains(&i) {
                s.push('-');
            } else {
                s.push(digits[di] as char);
                di += 1;
            }
        }
        cx.eval();
        cx.obs();
        match catches(|| to_vec(&aml::Uuid::new(&s))) {
            Err(_) => {
                cx.rep.cov("misplaced_separator_refused");
                cx.rep.distinct(&pos);
            }
            Ok(b) => cx.violation(format!("UUID {:?} with misplaced separators is accepted", s), obj(vec![("emitted", hex(&b).into())])),
        }
    }));
    let _ = term_json;
    rep
}
