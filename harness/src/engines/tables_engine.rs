//! The tables engine: executes abstract builder programs against the real crate objects,
//! observes the serialised image after (nearly) every prefix, and judges it with the oracle
//! of the property under check (C01–C05, C14).

use crate::json::{obj, J};
use crate::prng::{hash_bytes, Rng};
use crate::report::{par_cases, CaseCtx, Cfg, Report, Tier};
use crate::sinks::{observe_all_sinks, sum8, to_vec, MonitorSink};
use crate::tables::gen::*;
use crate::tables::judge::{self, Verdict};
use crate::tables::ops::*;
use crate::tables::real::{HandleKind, Real};
use crate::tables::reference::{get, put, RefTable};
use acpi_tables::u8sum;

fn prog_json(p: &Prog, upto: usize) -> J {
    let ops: Vec<J> = p.ops.iter().take(upto.min(24)).map(|o| J::Str(format!("{:?}", o).chars().take(300).collect())).collect();
    obj(vec![
        ("table", p.kind.name().into()),
        ("header", format!("{:?}", p.hdr).into()),
        ("ctor", format!("{:?}", p.ctor).into()),
        ("ops_total", p.ops.len().into()),
        ("ops_executed", upto.into()),
        ("ops_head", J::Arr(ops)),
        ("last_op", p.ops.get(upto.saturating_sub(1)).map(|o| J::Str(format!("{:?}", o).chars().take(600).collect())).unwrap_or(J::Null)),
    ])
}

fn report(cx: &mut CaseCtx, v: Verdict, p: &Prog, step: usize) -> bool {
    match v {
        Verdict::Held => true,
        Verdict::Known(id, what) => {
            cx.known(id, &what);
            true
        }
        Verdict::Violated(msg, mut detail) => {
            if let J::Null = detail {
                detail = obj(vec![]);
            }
            detail.set("program", prog_json(p, step));
            detail.set("after_step", step.into());
            cx.violation(msg, detail);
            false
        }
    }
}

fn corrupts(v: Verdict) -> bool {
    matches!(v, Verdict::Violated(..))
}

/// Negative control: corrupt our own copy of an accepted observation and require the same
/// oracle to reject it.
fn negative_control(cx: &mut CaseCtx, prop: &str, kind: Kind, obs: &[u8], rt: &RefTable, f10: bool) {
    let mut bad = obs.to_vec();
    let mut r = Rng::new(hash_bytes(obs) ^ cx.idx);
    let rejected = match prop {
        "C01" => {
            if kind == Kind::Facs {
                return;
            }
            let k = if kind == Kind::Rsdp { r.usize_below(20) } else { r.usize_below(bad.len()) };
            bad[k] = bad[k].wrapping_add(1 + r.below(255) as u8);
            corrupts(judge::c01(kind, &bad))
        }
        "C02" => {
            if kind == Kind::Sdt && rt.sdt_len_overwritten {
                return;
            }
            if (r.bool() && !(kind == Kind::Cedt && rt.rdpas > 0)) || kind == Kind::Rsdp || kind == Kind::Facs {
                let off = if kind == Kind::Rsdp { 20 } else { 4 };
                let l = get(&bad, off, 4) ^ (1 << r.below(8));
                put(&mut bad, off, 4, l);
            } else {
                bad.push(0);
                bad.push(0);
                if kind == Kind::Cedt {
                    bad.push(0);
                }
            }
            // a CEDT off by exactly #RDPAS would be read as the known finding; avoid that shape
            if kind == Kind::Cedt && rt.rdpas > 0 && get(&bad, 4, 4) + rt.rdpas as u64 == bad.len() as u64 {
                return;
            }
            corrupts(judge::c02(kind, &bad, rt, f10))
        }
        "C03" => {
            if !kind.has_body() {
                return;
            }
            bad.pop();
            corrupts(judge::c03(kind, &bad, rt, f10))
        }
        "C04" => {
            let mut k = r.usize_below(bad.len());
            // never a masked byte; and never the Length field of a CEDT that carries the known
            // RDPAS deviation (a flipped Length bit could make that Length *correct*)
            let in_rdpas_len = kind == Kind::Cedt && rt.entries.iter().any(|e| e.name == "cedt.rdpas" && (k == e.off + 2 || k == e.off + 3));
            if judge::masked(kind, k) || in_rdpas_len || (kind == Kind::Cedt && rt.rdpas > 0 && (4..8).contains(&k)) {
                k = 0;
            }
            bad[k] ^= 1 << r.below(8);
            corrupts(judge::c04(kind, &bad, rt, f10))
        }
        "C05" => {
            if rt.refs.is_empty() {
                return;
            }
            let rf = &rt.refs[r.usize_below(rt.refs.len())];
            let v = get(&bad, rf.field_off, rf.width) ^ (1 << r.below(6));
            put(&mut bad, rf.field_off, rf.width, v);
            corrupts(judge::c05_image(kind, &bad, rt))
        }
        _ => return,
    };
    cx.rep.neg_controls += 1;
    if !rejected {
        cx.rep.inconclusive(format!("negative control not rejected by the {} oracle on a {} image", prop, kind.name()));
    }
}

fn observe_policy(step: usize, total: usize, count: usize, prev_len: usize, new_len: usize, stride: usize, hot: &mut usize) -> bool {
    if total <= 96 || step < 8 || step + 220 >= total {
        return true; // short programs, the start, and the whole tail after a sweep
    }
    for b in [256usize, 65536, 1 << 24] {
        if prev_len < b && new_len >= b {
            *hot = 4;
        }
        if count + 4 >= b && count <= b + 4 {
            return true;
        }
    }
    if *hot > 0 {
        *hot -= 1;
        return true;
    }
    // the byte just below a carry of the length field's low bytes
    if new_len < (1 << 20) && new_len % 256 < 48 && (new_len / 256) % 64 == 0 {
        return true;
    }
    step % stride == 0
}

/// Execute one program and judge every observed prefix for property `prop`.
/// Input no property promises to be accepted: strings with NUL or non-ASCII characters (C03 quantifies
/// strings over their lengths only), matrices with a zero dimension.
fn op_is_fringe(op: &Op) -> bool {
    let odd = |s: &str| !s.is_ascii() || s.contains('\0');
    match op {
        Op::Isa { s } => odd(s),
        Op::Platform { name, .. } => odd(name),
        Op::Sllbi { ni, nt, .. } => *ni == 0 || *nt == 0,
        _ => false,
    }
}

pub fn run_prog(cx: &mut CaseCtx, p: &Prog, stride: usize) {
    cx.fringe = p.ops.iter().any(op_is_fringe);
    let prop = cx.cfg.prop.clone();
    let f10 = cx.cfg.is_known("F10");
    let want_raw = prop == "C14";
    let mut real = Real::new(p);
    let mut rt = RefTable::new(p);
    cx.eval();
    let mut prev_len = rt.img.len();
    let mut hot = 0usize;
    let total = p.ops.len();
    let mut kinds_seen: Vec<&'static str> = Vec::new();
    for step in 0..=total {
        if step > 0 {
            let op = &p.ops[step - 1];
            let applied = real.apply(op, want_raw);
            rt.apply(op);
            let kn = op.kind_name();
            if !kinds_seen.contains(&kn) {
                kinds_seen.push(kn);
            }
            if step == 1 {
                cx.rep.cov(&format!("first:{}", kn));
            } else if step == total {
                cx.rep.cov(&format!("last:{}", kn));
            } else {
                cx.rep.cov(&format!("middle:{}", kn));
            }
            if prop == "C05" {
                if let Some((hk, val)) = applied.handle {
                    let exp = match hk {
                        HandleKind::Proc => *rt.proc_offs.last().unwrap(),
                        HandleKind::Cache => *rt.cache_offs.last().unwrap(),
                        HandleKind::Isa => *rt.isa_offs.last().unwrap(),
                        HandleKind::Cmo => *rt.cmo_offs.last().unwrap(),
                        HandleKind::Iommu => *rt.iommu_offs.last().unwrap(),
                        HandleKind::Viot => rt.viot_offs.last().unwrap().0,
                    };
                    cx.obs();
                    cx.rep.cov(&format!("handle:{:?}", hk));
                    if val as usize != exp {
                        cx.violation(
                            format!("{}: handle returned for {} is {}, but that node begins at offset {}", p.kind.name(), kn, val, exp),
                            obj(vec![("program", prog_json(p, step)), ("after_step", step.into())]),
                        );
                        return;
                    }
                }
            }
            if want_raw {
                if let Some((raw, ser)) = applied.raw {
                    cx.obs();
                    cx.rep.cov(&format!("raw_form:{}", kn));
                    if raw != ser {
                        cx.violation(
                            format!("{}: raw in-memory form of {} differs from its serialised form", p.kind.name(), kn),
                            obj(vec![("raw", crate::json::hex(&raw).into()), ("serialised", crate::json::hex(&ser).into()), ("program", prog_json(p, step))]),
                        );
                        return;
                    }
                }
            }
        }
        let new_len = rt.img.len();
        let count = rt.entries.len();
        let look = observe_policy(step, total, count, prev_len, new_len, stride, &mut hot);
        if new_len >= 256 && prev_len < 256 {
            cx.rep.cov("boundary:length_carry_0xff");
        }
        if new_len >= 65536 && prev_len < 65536 {
            cx.rep.cov("boundary:length_carry_0xffff");
        }
        if new_len >= 1 << 24 && prev_len < 1 << 24 {
            cx.rep.cov("boundary:length_carry_0xffffff");
        }
        if step > 0 && count == 256 && p.kind.has_body() {
            cx.rep.cov("boundary:count_carry_0xff");
        }
        if step > 0 && count == 65536 && p.kind.has_body() {
            cx.rep.cov("boundary:count_carry_0xffff");
        }
        prev_len = new_len;
        if !look {
            continue;
        }
        let mut mon = MonitorSink::default();
        real.with_aml(&mut |a| a.to_aml_bytes(&mut mon));
        let obs = mon.data;
        cx.obs();
        let ok = match prop.as_str() {
            "C01" => report(cx, judge::c01(p.kind, &obs), p, step),
            "C02" => report(cx, judge::c02(p.kind, &obs, &rt, f10), p, step),
            "C03" => report(cx, judge::c03(p.kind, &obs, &rt, f10), p, step),
            "C04" => report(cx, judge::c04(p.kind, &obs, &rt, f10), p, step),
            "C05" => report(cx, judge::c05_image(p.kind, &obs, &rt), p, step),
            // (miniature/Miri workload: the six-sink comparison only on the final image)
            "C14" => {
                if cx.cfg.mini && step < total {
                    true
                } else {
                    c14_observe(cx, &real, &obs, p, step)
                }
            }
            _ => true,
        };
        if !ok {
            return;
        }
        if step > 0 {
            cx.rep.distinct(&hash_bytes(&obs));
        }
        if (cx.idx + step as u64) % 29 == 0 {
            negative_control(cx, &prop, p.kind, &obs, &rt, f10);
        }
    }
    cx.rep.cov(&format!("table:{}", p.kind.name()));
    let mut ks = kinds_seen.clone();
    ks.sort();
    cx.rep.distinct(&(p.kind, ks, total.min(64)));
    if total > 0 {
        cx.sample(|| prog_json(p, total));
    }
}

/// C14 on a table object: determinism, six sinks, u8sum, whole-table raw forms.
fn c14_observe(cx: &mut CaseCtx, real: &Real, first: &[u8], p: &Prog, step: usize) -> bool {
    let mut ok = true;
    let mut fail = |cx: &mut CaseCtx, msg: String, detail: J| {
        let mut d = detail;
        if let J::Null = d {
            d = obj(vec![]);
        }
        d.set("program", prog_json(p, step));
        cx.violation(msg, d);
        ok = false;
    };
    let mut second = Vec::new();
    real.with_aml(&mut |a| second = to_vec(a));
    if second != first {
        fail(cx, format!("{}: two serialisations of the same object differ", p.kind.name()), J::Null);
        return false;
    }
    let small = first.len() <= 6000;
    let mut so = None;
    let mut usum = 0u8;
    real.with_aml(&mut |a| {
        usum = u8sum(a);
        if small {
            so = Some(observe_all_sinks(a));
        }
    });
    if usum != sum8(first) {
        fail(cx, format!("{}: u8sum() = {} but the serialised bytes sum to {}", p.kind.name(), usum, sum8(first)), J::Null);
        return false;
    }
    if let Some(raw) = real.table_as_bytes() {
        cx.rep.cov(&format!("raw_form:table:{}", p.kind.name()));
        if raw != first {
            fail(cx, format!("{}: raw in-memory form of the table differs from its serialised form", p.kind.name()), J::Null);
            return false;
        }
    }
    if let Some(s) = so {
        cx.rep.cov("six_sinks_compared");
        cx.rep.distinct(&("chunking", s.full_pattern));
        cx.rep.cov_n("sink_calls_logged", s.full_calls as u64);
        let cmp: [(&str, &Vec<u8>); 5] = [("Vec<u8>", &s.vec), ("ByteOnly", &s.byte_only), ("Full", &s.full), ("Sdt", &s.sdt_tail), ("PackageBuilder", &s.pkg_tail)];
        for (name, b) in cmp {
            if b.as_slice() != first {
                let i = b.iter().zip(first.iter()).position(|(x, y)| x != y).unwrap_or(b.len().min(first.len()));
                fail(
                    cx,
                    format!("{}: stream delivered to sink {} differs from the monitor sink at byte {} ({} vs {} bytes)", p.kind.name(), name, i, b.len(), first.len()),
                    J::Null,
                );
                return false;
            }
        }
        if s.checksum_raw != sum8(first) {
            fail(cx, format!("{}: Checksum sink accumulated {} but the bytes sum to {}", p.kind.name(), s.checksum_raw, sum8(first)), J::Null);
            return false;
        }
        if s.sdt_sum != 0 || s.sdt_len_field as usize != s.sdt_total {
            fail(cx, format!("{}: generic table used as sink ends with sum {} / Length {} for {} bytes", p.kind.name(), s.sdt_sum, s.sdt_len_field, s.sdt_total), J::Null);
            return false;
        }
    }
    ok
}

/// `n_ops` smallest entries (every 7th a random one when `mixed`), then `tail` further operations
/// drawn from the full random generator, so that every entry kind is also added to a table that
/// is already past the carry.
pub fn sweep_prog(kind: Kind, r: &mut Rng, n_ops: u64, mixed: bool, tail: u64) -> Prog {
    let mut st = GenState::default();
    let hdr = gen_hdr(r);
    let ctor = match kind {
        Kind::Sdt => {
            st.sdt_len = 36;
            Ctor::Sdt { sig: *b"SWEP", len: 36, rev: 1 }
        }
        _ => gen_ctor(kind, r, &mut st),
    };
    let mut ops = Vec::new();
    for i in 0..n_ops + tail {
        let o = if (mixed && i % 7 == 3) || (i >= n_ops && i % 2 == 0) { gen_op(kind, r, &mut st) } else { sweep_op(kind, r, &mut st, i) };
        match o {
            Some(o) => ops.push(o),
            None => break,
        }
    }
    Prog { kind, hdr, ctor, ops }
}

const SWEEP_KINDS: [Kind; 13] =
    [Kind::Xsdt, Kind::Mcfg, Kind::Madt, Kind::Srat, Kind::Hmat, Kind::Pptt, Kind::Rhct, Kind::Rimt, Kind::Viot, Kind::Cedt, Kind::Hest, Kind::Rqsc, Kind::Sdt];

/// All streams of the tables engine for the property in `cfg`.
pub fn run(cfg: &Cfg) -> Report {
    let mut rep = Report::default();
    let thorough = cfg.tier == Tier::Thorough;
    rep.rule(
        "builder programs (constructor + op sequence) per table kind: seeded random over all entry kinds and boundary-biased scalars, \
         directed empty/once/twice histories, long sweeps across count/length carries; image observed after every prefix (windowed \
         around carries for long sweeps); distinct = distinct observed images of non-empty programs + distinct (table, entry-kind set, length) shapes",
    );

    // 1. seeded random programs, all 22 kinds round-robin
    // C14 serialises every observation into six sinks (the Sdt sink is quadratic): fewer programs there
    let n_random = cfg.scaled(if thorough { if cfg.prop == "C14" { 200_000 } else { 660_000 } } else { 110_000 });
    let max_ops = if thorough { 120 } else { 40 };
    let kinds: Vec<Kind> = match cfg.prop.as_str() {
        "C03" => ALL_KINDS.iter().copied().filter(|k| k.has_body()).collect(),
        "C05" => vec![Kind::Pptt, Kind::Rhct, Kind::Rimt, Kind::Viot],
        _ => ALL_KINDS.to_vec(),
    };
    let sweep_kinds: Vec<Kind> = SWEEP_KINDS.iter().copied().filter(|k| kinds.contains(k)).collect();
    rep.merge(par_cases(cfg, "tables.random", n_random, |cx| {
        let kind = kinds[(cx.idx % kinds.len() as u64) as usize];
        let mut r = cx.rng.clone();
        let mo = if cx.cfg.mini { 12 } else if cx.idx % 97 == 0 { max_ops * 5 } else { max_ops };
        let p = gen_prog(kind, &mut r, mo);
        run_prog(cx, &p, 1);
    }));

    // 1b. layout programs: every pub field of the FADT / FACS carrying a distinguishing value
    //     (unique, asymmetric, non-zero bytes), so a swap, wrong width or wrong offset cannot cancel
    if matches!(cfg.prop.as_str(), "C01" | "C02" | "C04" | "C14") && !cfg.mini {
        rep.merge(par_cases(cfg, "tables.layout", cfg.scaled(if thorough { 20_000 } else { 400 }), |cx| {
            let mut r = cx.rng.clone();
            let fadt = cx.idx % 2 == 0;
            let mut ops: Vec<Op> = Vec::new();
            if fadt {
                let mut idx: Vec<usize> = (0..crate::tables::reference::FADT_FIELDS.len()).collect();
                for i in (1..idx.len()).rev() {
                    let j = r.usize_below(i + 1);
                    idx.swap(i, j);
                }
                let all = cx.idx % 4 == 0;
                for i in idx {
                    if all || r.bool() {
                        let (_, w, _) = crate::tables::reference::FADT_FIELDS[i];
                        let v = if cx.idx % 8 < 4 { crate::prng::distinguishing(i as u32, if w == 12 { 64 } else { 8 * w as u32 }) } else { r.biased(if w == 12 { 64 } else { 8 * w as u32 }) };
                        ops.push(Op::Fadt { call: 9, a: i as u64, b: v, c: 0 });
                    }
                }
                cx.rep.cov("layout:fadt_pub_fields");
            } else {
                for i in 0..7u8 {
                    if cx.idx % 4 == 1 || r.bool() {
                        let (_, w, _) = crate::tables::reference::FACS_FIELDS[i as usize];
                        let v = if cx.idx % 8 < 4 { crate::prng::distinguishing(i as u32 + 60, 8 * w as u32) } else { r.biased(8 * w as u32) };
                        ops.push(Op::FacsSet { idx: i, v });
                    }
                }
                cx.rep.cov("layout:facs_pub_fields");
            }
            let p = Prog { kind: if fadt { Kind::Fadt } else { Kind::Facs }, hdr: gen_hdr(&mut r), ctor: Ctor::None, ops };
            run_prog(cx, &p, 1);
        }));
    }
    if cfg.prop == "C02" {
        rep.merge(len_helpers(cfg));
    }
    if cfg.prop == "C04" {
        rep.merge(value_layouts(cfg));
    }
    if cfg.mini {
        return rep; // the long sweeps are not part of the miniature (Miri) workload
    }
    // 2. sweeps across 255->256 entries and the 0xFF / 0xFFFF length carries
    //    variants per kind: pure smallest-entry, mixed
    let n_sweep = sweep_kinds.len() as u64 * 2;
    rep.merge(par_cases(cfg, "tables.sweep256", n_sweep, |cx| {
        let kind = sweep_kinds[(cx.idx / 2) as usize];
        let mut r = cx.rng.clone();
        let p = sweep_prog(kind, &mut r, 300, cx.idx % 2 == 1, 40);
        run_prog(cx, &p, 1);
    }));
    // every entry kind in the role of "the entry that crosses the carry": fill with the smallest
    // entry to just below a count/length carry, then a handful of operations of every kind
    let targets: Vec<(&str, u64)> = if thorough { vec![("count255", 253), ("len256", 0), ("len64k", 1), ("count65536", 65_533)] } else { vec![("count255", 253), ("len256", 0), ("len64k", 1)] };
    let variants = if thorough { 96u64 } else { 24 };
    let nsk = sweep_kinds.len() as u64;
    let ntg = targets.len() as u64;
    rep.merge(par_cases(cfg, "tables.carry_kinds", nsk * ntg * variants, |cx| {
        let kind = sweep_kinds[(cx.idx % nsk) as usize];
        let (tname, tval) = targets[((cx.idx / nsk) % ntg) as usize];
        if kind == Kind::Rqsc && tname == "count65536" {
            return; // quadratic checksum: covered once by tables.sweepcount64k
        }
        let mut r = cx.rng.clone();
        let es = sweep_entry_size(kind).max(1) as u64;
        let first = crate::tables::walk::first_entry(kind).min(64) as u64;
        let n0 = match tname {
            "len256" => (256u64.saturating_sub(first)) / es,
            "len64k" => (65_536 - first) / es - 1,
            _ => tval,
        };
        if kind == Kind::Viot && n0 * 16 + 48 + 200 > 65_535 {
            return; // a VIOT cannot grow that far (16-bit node offsets)
        }
        let jitter = r.below(3);
        let p = sweep_prog(kind, &mut r, n0.saturating_sub(jitter), false, 10);
        run_prog(cx, &p, 100_003);
        cx.rep.cov(&format!("carry_target:{}", tname));
    }));
    // length 65535->65536 (quick: for every kind; long programs observed in windows)
    rep.merge(par_cases(cfg, "tables.sweep64k", n_sweep, |cx| {
        let kind = sweep_kinds[(cx.idx / 2) as usize];
        if kind == Kind::Viot {
            // a VIOT cannot reach 65 536 bytes (16-bit node offsets): sweep to its limit instead
        }
        if kind == Kind::Rqsc && !thorough_or_scaled(cx.cfg) {
            // RQSC recomputes its checksum per add (quadratic): thorough tier only
            return;
        }
        let mut r = cx.rng.clone();
        let es = sweep_entry_size(kind).max(1) as u64;
        let n = 65_600 / es;
        let p = sweep_prog(kind, &mut r, n, cx.idx % 2 == 1, 160);
        run_prog(cx, &p, 211);
    }));
    // count 65535->65536 for the tables that keep a count field (thorough; RHCT/HEST/RIMT quick too)
    let count_kinds: Vec<Kind> = (if thorough { vec![Kind::Rhct, Kind::Rimt, Kind::Hest, Kind::Rqsc, Kind::Xsdt, Kind::Madt] } else { vec![Kind::Rhct, Kind::Rimt, Kind::Hest] })
        .into_iter()
        .filter(|k| kinds.contains(k))
        .collect();
    rep.merge(par_cases(cfg, "tables.sweepcount64k", count_kinds.len() as u64, |cx| {
        let kind = count_kinds[cx.idx as usize];
        let mut r = cx.rng.clone();
        let p = sweep_prog(kind, &mut r, 65_500, false, 200);
        run_prog(cx, &p, 4099);
    }));
    // Length carry 2^24-1 -> 2^24 (third Length byte), thorough tier only: 16 MiB tables
    if thorough && cfg.scale_pct >= 100 {
        let big: Vec<Kind> = [Kind::Xsdt, Kind::Mcfg, Kind::Madt, Kind::Hest, Kind::Sdt].into_iter().filter(|k| kinds.contains(k)).collect();
        rep.merge(par_cases(cfg, "tables.sweep16m", big.len() as u64, |cx| {
            let kind = big[cx.idx as usize];
            let mut r = cx.rng.clone();
            let p = if kind == Kind::Sdt {
                let mut ops: Vec<Op> = (0..16).map(|_| Op::Sdt(SdtOp::AppendSlice(vec![0x3C; 1_000_000]))).collect();
                ops.push(Op::Sdt(SdtOp::AppendSlice(vec![0xC3; 777_000])));
                let mut st = GenState { sdt_len: 16_777_036, ..Default::default() };
                for i in 0..260 {
                    if let Some(o) = sweep_op(Kind::Sdt, &mut r, &mut st, i) {
                        ops.push(o);
                    }
                }
                Prog { kind, hdr: gen_hdr(&mut r), ctor: Ctor::Sdt { sig: *b"BIG_", len: 36, rev: 1 }, ops }
            } else {
                let es = sweep_entry_size(kind) as u64;
                sweep_prog(kind, &mut r, (1 << 24) / es - 30, false, 120)
            };
            run_prog(cx, &p, 16381);
            cx.rep.cov("boundary:length_carry_0xffffff_program");
        }));
    }
    // coverage floor: every table kind of this property and every entry kind it accepts must
    // actually have been observed (a function of the deterministic plan; failing it means the
    // workload no longer does what it promises — inconclusive, never a violation)
    if cfg.replay.is_none() && !cfg.mini && cfg.scale_pct >= 100 && rep.violation_count == 0 {
        const ENTRY_KINDS: [(&str, Kind); 45] = [
            ("xsdt.entry", Kind::Xsdt), ("mcfg.ecam", Kind::Mcfg), ("madt.lapic", Kind::Madt), ("madt.ioapic", Kind::Madt), ("madt.gicc", Kind::Madt),
            ("madt.gicd", Kind::Madt), ("madt.gicmsi", Kind::Madt), ("madt.gicr", Kind::Madt), ("madt.its", Kind::Madt), ("madt.rintc", Kind::Madt),
            ("madt.imsic", Kind::Madt), ("madt.aplic", Kind::Madt), ("madt.plic", Kind::Madt), ("srat.memory", Kind::Srat), ("srat.initiator.acpi", Kind::Srat),
            ("srat.initiator.pci", Kind::Srat), ("srat.rintc", Kind::Srat), ("slit.set", Kind::Slit), ("hmat.mpda", Kind::Hmat), ("hmat.sllbi", Kind::Hmat),
            ("hmat.msc", Kind::Hmat), ("pptt.cache", Kind::Pptt), ("pptt.processor", Kind::Pptt), ("rhct.isa", Kind::Rhct), ("rhct.mmu", Kind::Rhct),
            ("rhct.cmo", Kind::Rhct), ("rhct.hartinfo", Kind::Rhct), ("rimt.iommu", Kind::Rimt), ("rimt.rootcomplex", Kind::Rimt), ("rimt.platform", Kind::Rimt),
            ("viot.pci_iommu", Kind::Viot), ("viot.mmio_iommu", Kind::Viot), ("viot.pci_range", Kind::Viot), ("viot.mmio_endpoint", Kind::Viot), ("cedt.chbs", Kind::Cedt),
            ("cedt.cfmws", Kind::Cedt), ("cedt.cxims", Kind::Cedt), ("cedt.rdpas", Kind::Cedt), ("hest.aer_root_port", Kind::Hest), ("hest.aer_device", Kind::Hest),
            ("hest.aer_bridge", Kind::Hest), ("hest.ghes", Kind::Hest), ("hest.ghes_v2", Kind::Hest), ("rqsc.controller", Kind::Rqsc), ("tpm2.set_log_area", Kind::Tpm2),
        ];
        for k in &kinds {
            if !rep.cov.contains_key(&format!("table:{}", k.name())) {
                rep.inconclusive(format!("coverage floor: no {} program was observed", k.name()));
            }
        }
        for (name, k) in ENTRY_KINDS {
            if kinds.contains(&k) && !["first", "middle", "last"].iter().any(|pos| rep.cov.contains_key(&format!("{}:{}", pos, name))) {
                rep.inconclusive(format!("coverage floor: entry kind {} was never added", name));
            }
        }
        for b in ["boundary:length_carry_0xff", "boundary:length_carry_0xffff", "boundary:count_carry_0xff"] {
            if !rep.cov.contains_key(b) {
                rep.inconclusive(format!("coverage floor: {} was never crossed", b));
            }
        }
    }
    rep
}

fn thorough_or_scaled(cfg: &Cfg) -> bool {
    cfg.tier == Tier::Thorough
}


/// C02 companion: every public `len()` helper agrees with the number of bytes the object
/// serialises to (a helper disagreeing with its serialiser is how Length fields go wrong).
fn len_helpers(cfg: &Cfg) -> Report {
    use acpi_tables::{facs::FACS, fadt::FADT, gas::GAS, madt, pptt, rqsc, rsdp::Rsdp, tpm2};
    par_cases(cfg, "len.helpers", cfg.scaled(2_000), |cx| {
        let mut r = cx.rng.clone();
        cx.eval();
        let check = |cx: &mut CaseCtx, what: &str, helper: usize, bytes: usize| {
            cx.obs();
            cx.rep.cov(&format!("len_helper:{}", what));
            if helper != bytes {
                cx.violation(format!("{}::len() says {} but the object serialises to {} bytes", what, helper, bytes), J::Null);
            }
        };
        let h = gen_hdr(&mut r);
        check(cx, "FACS", FACS::len(), to_vec(&FACS::new()).len());
        check(cx, "FADT", FADT::len(), to_vec(&acpi_tables::fadt::FADTBuilder::new(h.oem_id, h.oem_table_id, h.oem_rev).finalize()).len());
        check(cx, "GAS", GAS::len(), to_vec(&crate::tables::real::mk_gas(&gen_gas(&mut r))).len());
        check(cx, "Rsdp", Rsdp::len(), to_vec(&Rsdp::new(h.oem_id, r.u64b())).len());
        check(cx, "TpmServer1_2", tpm2::TpmServer1_2::len(), to_vec(&tpm2::TpmServer1_2::new(h.oem_id, h.oem_table_id, h.oem_rev)).len());
        check(cx, "RINTC", madt::RINTC::len(), to_vec(&madt::RINTC::new(madt::HartStatus::Enabled, r.u64b(), 1, 2, 3, 4)).len());
        check(cx, "IMSIC", madt::IMSIC::len(), to_vec(&madt::IMSIC::new(1, 2, 3, 4, 5, 6)).len());
        check(cx, "APLIC", madt::APLIC::len(), to_vec(&madt::APLIC::new(1, [0; 8], 2, 3, 4, 5, 6)).len());
        check(cx, "PLIC", madt::PLIC::len(), to_vec(&madt::PLIC::new(1, [0; 8], 2, 3, 4, 5, 6)).len());
        check(cx, "CacheNode", pptt::CacheNode::len(), to_vec(&pptt::CacheNodeBuilder::default().size(r.u32b()).to_node()).len());
        // RQSC: instance helpers over random resource lists
        if let Some(op @ Op::Controller { .. }) = gen_op(Kind::Rqsc, &mut r, &mut GenState::default()) {
            let c = crate::tables::real::build_controller(&op);
            check(cx, "QoSController", c.len(), to_vec(&c).len());
            if let Op::Controller { res, .. } = &op {
                for rs in res {
                    let o = crate::tables::real::build_rqsc_resource(rs);
                    check(cx, "ResourceStructure", o.len(), to_vec(&o).len());
                    let id = match &rs.id {
                        RqscId::Cache(c) => rqsc::ResourceID::Cache(rqsc::CacheResource::new(*c)),
                        RqscId::Mem { pd, bw } => rqsc::ResourceID::MemoryAffinityStructure(rqsc::MemoryAffinityStructureResource::new(*pd, *bw)),
                        RqscId::Acpi { hid, uid } => rqsc::ResourceID::ACPIDevice(rqsc::ACPIDeviceResource::new(*hid, *uid)),
                        RqscId::Pci(b) => rqsc::ResourceID::PCIDevice(rqsc::PCIDeviceResource::new(*b)),
                        RqscId::Vendor(t, d) => rqsc::ResourceID::VendorSpecific(*t, d.clone()),
                    };
                    check(cx, "ResourceID", id.len(), to_vec(&id).len());
                }
            }
            cx.rep.distinct(&format!("{:?}", op).len());
        }
        let _ = rqsc::ResourceType::Cache;
    })
}

/// C04 companion: value types that are not tables — GAS constructors, sdt::GenericAddress,
/// the generic error status block header.
fn value_layouts(cfg: &Cfg) -> Report {
    use acpi_tables::{gas, hest, sdt::GenericAddress};
    use zerocopy::IntoBytes;
    // GAS::new over a full grid: every address space x access size x widths x offsets x addresses
    let mut grid = par_cases(cfg, "layout.gas_grid", 13 * 5 * 9 * 3 * 3, |cx| {
        let mut i = cx.idx;
        let space = (i % 13) as u8;
        i /= 13;
        let access = (i % 5) as u8;
        i /= 5;
        let width = [0u8, 1, 7, 8, 16, 32, 64, 128, 255][(i % 9) as usize];
        i /= 9;
        let offset = [0u8, 1, 255][(i % 3) as usize];
        i /= 3;
        let addr = [0u64, 0x1000, 0xFFFF_8000_0000_0001][(i % 3) as usize];
        let g = GasArg { space, width, offset, access, addr };
        cx.eval();
        cx.obs();
        let got = to_vec(&crate::tables::real::mk_gas(&g));
        let want = crate::tables::reference::gas(&g);
        if got != want {
            cx.violation(
                "gas::GAS::new is not encoded as the specification prescribes".to_string(),
                obj(vec![("input", format!("{:?}", g).into()), ("observed", crate::json::hex(&got).into()), ("expected", crate::json::hex(&want).into())]),
            );
            return;
        }
        cx.rep.cov("value_layout:gas_grid");
        cx.rep.distinct(&cx.idx);
    });
    grid.exhaustive("C04 gas::GAS::new over 13 address spaces x 5 access sizes x 9 widths x 3 offsets x 3 addresses");
    let mut rep = par_cases(cfg, "layout.values", cfg.scaled(if cfg.tier == Tier::Thorough { 400_000 } else { 20_000 }), |cx| {
        let mut r = cx.rng.clone();
        cx.eval();
        let cmp = |cx: &mut CaseCtx, what: &str, got: &[u8], want: &[u8], desc: String| {
            cx.obs();
            cx.rep.cov(&format!("value_layout:{}", what));
            if got != want {
                cx.violation(
                    format!("{} is not encoded as the specification prescribes", what),
                    obj(vec![("input", desc.into()), ("observed", crate::json::hex(got).into()), ("expected", crate::json::hex(want).into())]),
                );
            }
        };
        match cx.idx % 5 {
            4 => {
                let a = crate::tables::gen::gen_error_data(&mut r);
                let want = crate::tables::reference::error_data(&a);
                cmp(cx, "hest::GenericErrorData", &to_vec(&crate::tables::real::build_error_data(&a)), &want, format!("{:?}", a));
                cx.rep.distinct(&format!("{:?}", a));
            }
            0 => {
                let g = gen_gas(&mut r);
                let want = crate::tables::reference::gas(&g);
                cmp(cx, "gas::GAS::new", &to_vec(&crate::tables::real::mk_gas(&g)), &want, format!("{:?}", g));
                cx.rep.distinct(&format!("{:?}", g));
            }
            1 => {
                let (w, acc, dev, func, reg) = (r.u8b(), r.below(5) as u8, r.u8b(), r.u8b(), r.u16b());
                let mut want = vec![0u8; 12];
                put(&mut want, 0, 1, 2); // PCI configuration space
                put(&mut want, 1, 1, w as u64);
                put(&mut want, 3, 1, acc as u64);
                // ACPI 6.5 Table 5.1: PCI config address = device in the highest used word, function, then register offset
                put(&mut want, 4, 8, ((dev as u64) << 32) | ((func as u64) << 16) | reg as u64);
                let o = gas::GAS::new_pci_config(w, crate::tables::real::gas_access(acc), dev, func, reg);
                cmp(cx, "gas::GAS::new_pci_config", &to_vec(&o), &want, format!("width {} access {} dev {} fn {} reg {:#x}", w, acc, dev, func, reg));
                cx.rep.distinct(&(w, acc, dev, func, reg));
            }
            2 => {
                let a = r.u64b();
                let io = r.bool();
                let t = r.below(4);
                let bytes: Vec<u8> = match (io, t) {
                    (true, 0) => GenericAddress::io_port_address::<u8>(a as u16).as_bytes().to_vec(),
                    (true, 1) => GenericAddress::io_port_address::<u16>(a as u16).as_bytes().to_vec(),
                    (true, 2) => GenericAddress::io_port_address::<u32>(a as u16).as_bytes().to_vec(),
                    (true, _) => GenericAddress::io_port_address::<u64>(a as u16).as_bytes().to_vec(),
                    (false, 0) => GenericAddress::mmio_address::<u8>(a).as_bytes().to_vec(),
                    (false, 1) => GenericAddress::mmio_address::<u16>(a).as_bytes().to_vec(),
                    (false, 2) => GenericAddress::mmio_address::<u32>(a).as_bytes().to_vec(),
                    (false, _) => GenericAddress::mmio_address::<u64>(a).as_bytes().to_vec(),
                };
                let mut want = vec![0u8; 12];
                put(&mut want, 0, 1, io as u64); // 1 = system I/O, 0 = system memory
                put(&mut want, 1, 1, 8 << t); // register bit width
                put(&mut want, 3, 1, t + 1); // access size: byte, word, dword, qword
                put(&mut want, 4, 8, if io { a & 0xffff } else { a });
                cmp(cx, "sdt::GenericAddress", &bytes, &want, format!("io={} width={} addr={:#x}", io, 8 << t, a));
                cx.rep.distinct(&(io, t, a));
            }
            _ => {
                let (c, u) = (*r.pick(&[0u32, 1, 2, 3, 1000]), *r.pick(&[0u32, 1, 2, 7, u32::MAX]));
                let sev = r.below(4) as u32;
                let s = hest::GenericErrorStatus::new(
                    c,
                    u,
                    match sev {
                        0 => hest::ErrorSeverity::Recoverable,
                        1 => hest::ErrorSeverity::Fatal,
                        2 => hest::ErrorSeverity::Correctable,
                        _ => hest::ErrorSeverity::None,
                    },
                );
                let mut want = vec![0u8; 20];
                // ACPI 6.5 Table 18.11 block status: b0 UE valid, b1 CE valid, b2 multiple UE, b3 multiple CE
                let st = (if u == 1 { 1 } else { 0 }) | (if c == 1 { 2 } else { 0 }) | (if u > 1 { 4 } else { 0 }) | (if c > 1 { 8 } else { 0 });
                put(&mut want, 0, 4, st);
                put(&mut want, 16, 4, sev as u64);
                cmp(cx, "hest::GenericErrorStatus header", &to_vec(&s), &want, format!("correctable {} uncorrectable {} severity {}", c, u, sev));
                cx.rep.distinct(&(c, u, sev));
            }
        }
    });
    rep.merge(grid);
    rep
}
