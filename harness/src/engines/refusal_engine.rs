//! C18: counts and sizes too large for their field are refused (panic), in the build with
//! integer-overflow checks AND in the default release build; at exactly the field maximum the
//! call is accepted and the bytes are correctly framed. Each site is exercised at maximum,
//! maximum+1 and far beyond. The same binary source is built under both profiles; the release
//! process runs its sites and then runs the `checked` binary as a child and folds its report in.

use crate::amlref::build::build_bytes;
use crate::amlref::gen::gen_seg;
use crate::amlref::resref::descriptor;
use crate::amlref::term::*;
use crate::engines::aml_engine::check_term;
use crate::json::{hex, obj, J};
use crate::prng::Rng;
use crate::report::{catches, par_cases, CaseCtx, Cfg, Report, Tier};
use crate::sinks::{sum8, to_vec};
use crate::tables::gen::isa_pool;
use crate::tables::ops::Kind;
use crate::tables::reference::get;
use crate::tables::walk::{check_summaries, walk};
use acpi_tables::{aml, cedt, gas, hmat, pptt, rhct, rimt, rqsc, slit, viot, Aml};

fn refuse(cx: &mut CaseCtx, site: &str, what: String, f: impl FnOnce() -> Vec<u8>) {
    cx.eval();
    cx.obs();
    match catches(f) {
        Err(p) => {
            cx.rep.cov(&format!("refused:{}", site));
            let (s2, w2) = (site.to_string(), what.clone());
            cx.sample(|| obj(vec![("site", s2.into()), ("input", w2.into()), ("observed", format!("panic: {}", p.chars().take(120).collect::<String>()).into())]));
            cx.rep.distinct(&(site.to_string(), what));
        }
        Ok(b) => cx.violation(
            format!("[{} build] {}: {} is not refused; bytes are returned whose count/length field cannot describe them", cx.cfg.profile, site, what),
            obj(vec![("returned_bytes", b.len().into()), ("head", hex(&b[..b.len().min(48)]).into())]),
        ),
    }
}

fn accept(cx: &mut CaseCtx, site: &str, what: String, f: impl FnOnce() -> Result<(), String>) {
    cx.eval();
    cx.obs();
    match catches(f) {
        Ok(Ok(())) => {
            cx.rep.cov(&format!("accepted_at_max:{}", site));
            cx.rep.distinct(&(site.to_string(), what));
        }
        Ok(Err(e)) => cx.violation(format!("[{} build] {}: {} (the field maximum) is emitted with bad framing: {}", cx.cfg.profile, site, what, e), J::Null),
        // Refusing a representable amount is stricter than C18 demands ("refused, never wrapped"):
        // it is recorded, not reported — the property only forbids returning mis-framed bytes.
        Err(p) => {
            cx.rep.cov(&format!("refused_although_representable:{}", site));
            if cx.verbose {
                eprintln!("[replay] {} {} refused although representable: {}", site, what, p);
            }
        }
    }
}

fn walk_ok(kind: Kind, img: &[u8], expect_entries: usize) -> Result<(), String> {
    let w = walk(kind, img, &[])?;
    if w.entries.len() != expect_entries {
        return Err(format!("walk finds {} entries, {} were added", w.entries.len(), expect_entries));
    }
    check_summaries(kind, img, &w)?;
    if get(img, 4, 4) as usize != img.len() {
        return Err(format!("Length {} vs {} bytes", get(img, 4, 4), img.len()));
    }
    if sum8(img) != 0 {
        return Err(format!("checksum: sums to {}", sum8(img)));
    }
    Ok(())
}

#[cfg(rust_vmm_acpi_tables_verif)]
fn hook(len: usize, incl: bool) -> Vec<u8> {
    aml::verif_create_pkg_length(len, incl)
}
#[cfg(not(rust_vmm_acpi_tables_verif))]
fn hook(_len: usize, _incl: bool) -> Vec<u8> {
    panic!("harness built without the verification hook")
}

const H: ([u8; 6], [u8; 8], u32) = (*b"REFUSE", *b"OVERSIZE", 18);

fn term_ok(cx: &mut CaseCtx, t: &Term) -> Result<(), String> {
    let before = cx.rep.violation_count;
    match check_term(cx, t, false) {
        Some(_) => Ok(()),
        None => {
            // check_term already recorded the detail; fold it into this site's verdict
            if cx.rep.violation_count > before {
                cx.rep.violation_count = before;
                cx.rep.violations.pop();
            }
            Err("independent parser does not recover the tree".into())
        }
    }
}

fn far(r: &mut Rng, lo: u64, hi: u64) -> usize {
    r.range(lo, hi) as usize
}

pub const N_SITES: u64 = 24;

fn site(cx: &mut CaseCtx, s: u64) {
    let mut r = cx.rng.clone();
    match s {
        0 => {
            let name = "aml::Path segment count (u8)";
            let mk = |n: usize, r: &mut Rng| PathT { root: false, segs: (0..n).map(|_| gen_seg(r)).collect() };
            let p = mk(255, &mut r);
            accept(cx, name, "255 segments".into(), || {
                let b = to_vec(&aml::Path::new(&p.to_string()));
                if b[0] == 0x2F && b[1] == 255 && b.len() == 2 + 4 * 255 {
                    Ok(())
                } else {
                    Err("not MultiNamePrefix 255".into())
                }
            });
            for n in [256usize, 257, 1000, far(&mut r, 258, 5000)] {
                let p = mk(n, &mut r);
                refuse(cx, name, format!("{} segments", n), || to_vec(&aml::Path::new(&p.to_string())));
            }
        }
        1 => {
            let name = "aml::Package element count (u8)";
            let t = Term::Package((0..255).map(|i| Term::U8(i as u8)).collect());
            accept(cx, name, "255 elements".into(), || Ok(()));
            if let Err(e) = term_ok(cx, &t) {
                cx.violation(format!("[{} build] {}: 255 elements: {}", cx.cfg.profile, name, e), J::Null);
            }
            for n in [256usize, 300, 65536, far(&mut r, 257, 3000)] {
                refuse(cx, name, format!("{} elements", n), || {
                    let z = aml::ZERO;
                    let v: Vec<&dyn Aml> = (0..n).map(|_| &z as &dyn Aml).collect();
                    to_vec(&aml::Package::new(v))
                });
            }
        }
        2 => {
            let name = "aml::PackageBuilder element count (u8)";
            let t = Term::PackageBuilder((0..255).map(|i| Term::U16(i as u16 * 3)).collect());
            if let Err(e) = term_ok(cx, &t) {
                cx.violation(format!("[{} build] {}: 255 elements: {}", cx.cfg.profile, name, e), J::Null);
            } else {
                accept(cx, name, "255 elements".into(), || Ok(()));
            }
            for n in [256usize, 300, far(&mut r, 257, 3000)] {
                refuse(cx, name, format!("{} elements", n), || {
                    let mut pb = aml::PackageBuilder::new();
                    for _ in 0..n {
                        pb.add_element(&aml::ONE);
                    }
                    to_vec(&pb)
                });
            }
        }
        3 => {
            let name = "aml::Method argument count (3 bits)";
            let t = Term::Method { path: PathT::one(b"MTHD"), args: 7, serialized: true, body: vec![Term::Unary(2, Box::new(Term::Arg(6)))] };
            match term_ok(cx, &t) {
                Ok(()) => accept(cx, name, "7 arguments".into(), || Ok(())),
                Err(e) => cx.violation(format!("[{} build] {}: 7 arguments: {}", cx.cfg.profile, name, e), J::Null),
            }
            for n in [8u8, 9, 15, 16, 255, 8 + r.below(247) as u8] {
                refuse(cx, name, format!("{} arguments", n), || to_vec(&aml::Method::new(aml::Path::new("MTHD"), n, false, vec![])));
            }
        }
        4 => {
            let name = "PkgLength total (28 bits), self-inclusive";
            accept(cx, name, "content 2^28-5 (total 2^28-1)".into(), || {
                let e = hook((1 << 28) - 5, true);
                if e == vec![0xCF, 0xFF, 0xFF, 0xFF] {
                    Ok(())
                } else {
                    Err(format!("encoded as {}", hex(&e)))
                }
            });
            // beyond 2^32 as well: values whose low 32 bits alone would look small
            for n in [(1usize << 28) - 4, (1 << 28) - 1, 1 << 28, (1 << 28) + 1, 1 << 30, 1 << 32, (1 << 32) + 5, (7 << 32) | 0x1234, (1 << 36) + (1 << 27), usize::MAX - 8, usize::MAX - 3, usize::MAX - 1, usize::MAX, far(&mut r, 1 << 28, 1 << 40), (far(&mut r, 1, 1 << 20) << 32) | far(&mut r, 0, 1 << 27)] {
                refuse(cx, name, format!("content length {}", n), || hook(n, true));
            }
        }
        5 => {
            let name = "PkgLength (28 bits), exclusive form / field widths";
            accept(cx, name, "width 2^28-1".into(), || {
                let e = hook((1 << 28) - 1, false);
                if e == vec![0xCF, 0xFF, 0xFF, 0xFF] {
                    Ok(())
                } else {
                    Err(format!("encoded as {}", hex(&e)))
                }
            });
            let t = Term::Field { path: PathT::one(b"FLDS"), access: 0, lock: 0, update: 0, entries: vec![FieldE::Named(*b"WIDE", (1 << 28) - 1), FieldE::Reserved((1 << 28) - 1)] };
            if let Err(e) = term_ok(cx, &t) {
                cx.violation(format!("[{} build] {}: field widths 2^28-1: {}", cx.cfg.profile, name, e), J::Null);
            }
            for n in [1usize << 28, (1 << 28) + 1, 1 << 31, 1 << 32, (1 << 32) + 5, (7 << 32) | 0x1234, usize::MAX, far(&mut r, 1 << 28, 1 << 44), (far(&mut r, 1, 1 << 20) << 32) | far(&mut r, 0, 1 << 27)] {
                refuse(cx, name, format!("exclusive length {}", n), || hook(n, false));
                for named in [true, false] {
                    refuse(cx, name, format!("{} field entry of width {}", if named { "named" } else { "reserved" }, n), || {
                        build_bytes(
                            &Term::Field { path: PathT::one(b"FLDS"), access: 0, lock: 0, update: 0, entries: vec![if named { FieldE::Named(*b"WIDE", n) } else { FieldE::Reserved(n) }] },
                            false,
                        )
                    });
                }
            }
        }
        6 => {
            let name = "aml::AddressSpace range size (u16/u32/u64)";
            for (w, max) in [(AsWidth::W16, u16::MAX as u64), (AsWidth::W32, u32::MAX as u64), (AsWidth::W64, u64::MAX)] {
                for ty in 0..3u8 {
                    for (mn, mx) in [(1u64, max), (0, max - 1)] {
                        let res = Res::AddrSpace { w, ty, cache: 1, rw: true, min: mn, max: mx, trans: None };
                        let res2 = res.clone();
                        accept(cx, name, format!("{:?} type {} range {:#x}..={:#x} (size = field maximum)", w, ty, mn, mx), move || {
                            let t = Term::ResourceTemplate(vec![res2.clone()]);
                            let b = build_bytes(&t, false);
                            let d = descriptor(&res2);
                            if b.windows(d.len()).any(|x| x == &d[..]) {
                                Ok(())
                            } else {
                                Err("descriptor differs from the reference".into())
                            }
                        });
                        let _ = res;
                    }
                    let full = Res::AddrSpace { w, ty, cache: 0, rw: false, min: 0, max, trans: None };
                    refuse(cx, name, format!("{:?} type {} range 0..=MAX (size overflows the width)", w, ty), || build_bytes(&Term::ResourceTemplate(vec![full]), false));
                    // an inverted range has no size a length field could state (the subtraction underflows)
                    for (mn, mx) in [(1u64, 0u64), (max, 0), (max, max - 1), (0x1000u64.min(max), 0xfff), (far(&mut r, 2, 60000) as u64, 1)] {
                        let inv = Res::AddrSpace { w, ty, cache: 0, rw: false, min: mn, max: mx, trans: None };
                        refuse(cx, name, format!("{:?} type {} inverted range {:#x}..={:#x}", w, ty, mn, mx), || build_bytes(&Term::ResourceTemplate(vec![inv]), false));
                    }
                }
            }
        }
        7 => {
            let name = "PPTT processor node length (u8)";
            let build = |n: usize| -> Vec<u8> {
                let mut t = pptt::PPTT::new(H.0, H.1, H.2);
                let c = t.add_cache(pptt::CacheNodeBuilder::default().size(64).to_node());
                let mut p = pptt::ProcessorNode::new(None, 1);
                for _ in 0..n {
                    p = p.add_cache(&c);
                }
                t.add_processor(p);
                to_vec(&t)
            };
            accept(cx, name, "58 private resources (252 bytes)".into(), || walk_ok(Kind::Pptt, &build(58), 2));
            for n in [59usize, 60, 64, 1000, far(&mut r, 61, 4000)] {
                refuse(cx, name, format!("{} private resources", n), || build(n));
            }
        }
        8 => {
            let name = "CEDT CXIMS bitmap count (u8)";
            let build = |n: usize| -> Vec<u8> {
                let mut t = cedt::CEDT::new(H.0, H.1, H.2);
                let mut x = cedt::XorInterleaveMath::new(cedt::InterleaveGranularity::Granularity4kb);
                for i in 0..n {
                    x.add_xormap(i as u64 * 0x0101_0101);
                }
                t.add_xor_interleave_math(x);
                to_vec(&t)
            };
            accept(cx, name, "255 xormaps".into(), || walk_ok(Kind::Cedt, &build(255), 1));
            for n in [256usize, 257, 8190, 8191, 8192, far(&mut r, 258, 20000)] {
                refuse(cx, name, format!("{} xormaps", n), || build(n));
            }
        }
        9 => {
            let name = "HMAT memory side cache SMBIOS handle count (u16)";
            let build = |n: usize| -> Vec<u8> {
                let mut t = hmat::HMAT::new(H.0, H.1, H.2);
                let mut c = hmat::MemorySideCache::new(1, 1 << 30, hmat::CacheLevel::One, hmat::CacheLevel::One, hmat::Associativity::DirectMapped, hmat::WritePolicy::Writeback, 64);
                for i in 0..n {
                    c.add_smbios_handle(i as u16);
                }
                t.add_memory_side_cache(c);
                to_vec(&t)
            };
            accept(cx, name, "65535 handles".into(), || walk_ok(Kind::Hmat, &build(65535), 1));
            for n in [65536usize, 65537, 70000, far(&mut r, 65538, 200_000)] {
                refuse(cx, name, format!("{} handles", n), || build(n));
            }
        }
        10 => {
            let name = "RIMT IOMMU length (u16) via interrupt wires";
            let build = |n: usize| -> Vec<u8> {
                let mut t = rimt::RIMT::new(H.0, H.1, H.2);
                let wires = (0..n).map(|i| rimt::InterruptWire::new(i as u32, i & 1 == 1, i & 2 == 2, i as u16)).collect();
                t.add_iommu(rimt::Iommu::new(1, Some(0x1000), None, None, Some(wires)));
                to_vec(&t)
            };
            accept(cx, name, "8187 wires (65528 bytes)".into(), || walk_ok(Kind::Rimt, &build(8187), 1));
            for n in [8188usize, 8189, 8192, 20000, far(&mut r, 8190, 60000)] {
                refuse(cx, name, format!("{} wires", n), || build(n));
            }
        }
        11 => {
            let name = "RIMT PCIe root complex length (u16) via ID mappings";
            let build = |n: usize| -> Vec<u8> {
                let mut t = rimt::RIMT::new(H.0, H.1, H.2);
                let io = t.add_iommu(rimt::Iommu::new(1, None, None, None, None));
                let maps = (0..n).map(|i| rimt::IdMapping::new(i as u32, 0, 1, io, false, false, false)).collect();
                t.add_pcie_root_complex(rimt::PcieRootComplex::new(2, 0, true, false, Some(maps)));
                to_vec(&t)
            };
            accept(cx, name, "3275 mappings (65516 bytes)".into(), || walk_ok(Kind::Rimt, &build(3275), 2));
            for n in [3276usize, 3277, 4000, far(&mut r, 3278, 30000)] {
                refuse(cx, name, format!("{} mappings", n), || build(n));
            }
        }
        12 => {
            let name = "RIMT platform device length / mapping offset (u16)";
            let build = |name_len: usize, maps: usize| -> Vec<u8> {
                let mut t = rimt::RIMT::new(H.0, H.1, H.2);
                let io = t.add_iommu(rimt::Iommu::new(1, None, None, None, None));
                let ms = (0..maps).map(|i| rimt::IdMapping::new(i as u32, 0, 1, io, false, false, false)).collect();
                t.add_platform(rimt::Platform::new(3, "N".repeat(name_len), Some(ms)));
                to_vec(&t)
            };
            // the same device with no mapping list at all (`None` rather than an empty list)
            let build_none = |name_len: usize| -> Vec<u8> {
                let mut t = rimt::RIMT::new(H.0, H.1, H.2);
                t.add_iommu(rimt::Iommu::new(1, None, None, None, None));
                t.add_platform(rimt::Platform::new(3, "N".repeat(name_len), None));
                to_vec(&t)
            };
            accept(cx, name, "65522-character name, no mapping list (65535 bytes)".into(), || walk_ok(Kind::Rimt, &build_none(65522), 2));
            for n in [65523usize, 65524, 70000, far(&mut r, 65525, 300_000)] {
                refuse(cx, name, format!("{}-character name, no mapping list", n), || build_none(n));
            }
            accept(cx, name, "65522-character name (65535 bytes)".into(), || walk_ok(Kind::Rimt, &build(65522, 0), 2));
            accept(cx, name, "3-character name + 3275 mappings (65516 bytes)".into(), || walk_ok(Kind::Rimt, &build(3, 3275), 2));
            for n in [65523usize, 65524, 70000, far(&mut r, 65525, 300_000)] {
                refuse(cx, name, format!("{}-character name", n), || build(n, 0));
            }
            for n in [3276usize, 5000, far(&mut r, 3277, 20000)] {
                refuse(cx, name, format!("3-character name + {} mappings", n), || build(3, n));
            }
        }
        13 => {
            let name = "VIOT node offsets (u16)";
            // fill to the limit with 16-byte nodes; the image may reach 65520 bytes (4092 nodes)
            let build = |n: usize, then24: bool| -> (Vec<u8>, u64) {
                let mut t = viot::VIOT::new(H.0, H.1, H.2);
                let mut last = 0u64;
                let mut h = None;
                for i in 0..n {
                    let hh = t.add_virtio_mmio_iommu(viot::VirtIoMmioIommu::new(i as u64));
                    last = crate::tables::real::probe_viot(&hh);
                    h = Some(hh);
                }
                if then24 {
                    t.add_mmio_endpoint(viot::MmioEndpoint::new(1, 2, h.as_ref().unwrap()));
                }
                (to_vec(&t), last)
            };
            accept(cx, name, "4092 nodes (65520 bytes, last offset 65504)".into(), || {
                let (img, last) = build(4092, false);
                if last != 48 + 16 * 4091 {
                    return Err(format!("last handle {} != {}", last, 48 + 16 * 4091));
                }
                walk_ok(Kind::Viot, &img, 4092)
            });
            for n in [4093usize, 4094, 4095, 5000, far(&mut r, 4096, 9000)] {
                refuse(cx, name, format!("{} 16-byte nodes (image would reach {} bytes)", n, 48 + 16 * n), || build(n, false).0);
            }
            refuse(cx, name, "4092 nodes then a 24-byte endpoint (65544 bytes)".into(), || build(4092, true).0);
            // one translation node followed by nodes that hand out no handle: the image (and, far
            // enough, the 16-bit node count) still outgrows the 16-bit fields
            let build_eps = |n: usize, pci: bool| -> Vec<u8> {
                let mut t = viot::VIOT::new(H.0, H.1, H.2);
                let h = t.add_virtio_pci_iommu(viot::VirtIoPciIommu::new(viot::PciDevice::new(0, 0, 1, 0)));
                for i in 0..n {
                    if pci {
                        t.add_pci_range(viot::PciRange::new(viot::PciDevice::new(0, 0, 0, 0), viot::PciDevice::new(0, 255, 31, 7), &h));
                    } else {
                        t.add_mmio_endpoint(viot::MmioEndpoint::new(i as u32, 0x1000, &h));
                    }
                }
                let mut v = to_vec(&t);
                v.truncate(64);
                v
            };
            for (n, pci) in [(2728usize, false), (2729, true), (3000, false), (65_535, true), (65_536, false), (70_001, true)] {
                refuse(cx, name, format!("1 IOMMU + {} {} nodes (image would reach {} bytes)", n, if pci { "PCI-range" } else { "MMIO-endpoint" }, 64 + 24 * n), || build_eps(n, pci));
            }
            accept(cx, name, "1 IOMMU + 2727 endpoints (65512 bytes)".into(), || {
                let mut t = viot::VIOT::new(H.0, H.1, H.2);
                let h = t.add_virtio_mmio_iommu(viot::VirtIoMmioIommu::new(7));
                for i in 0..2727 {
                    t.add_mmio_endpoint(viot::MmioEndpoint::new(i, 0x2000, &h));
                }
                walk_ok(Kind::Viot, &to_vec(&t), 2728)
            });
        }
        14 => {
            let name = "SLIT locality count (N^2 in a u32 table length)";
            accept(cx, name, "N = 2048 (4 MiB matrix)".into(), || {
                let t = slit::SLIT::new(H.0, H.1, H.2, 2048);
                let img = to_vec(&t);
                walk_ok(Kind::Slit, &img, 0)
            });
            for n in [65536u32, 65537, 1 << 20, 1 << 31, u32::MAX, 65536 + r.below(1 << 20) as u32] {
                refuse(cx, name, format!("N = {}", n), || {
                    let t = slit::SLIT::new(H.0, H.1, H.2, n);
                    // serialise only when the (wrongly accepted) table is small enough to look at
                    let mut v = Vec::new();
                    if n <= 70000 {
                        v = to_vec(&t);
                        v.truncate(64);
                    }
                    v
                });
            }
        }
        15 => {
            let name = "RHCT ISA string node length (u16)";
            let leak = |n: usize| -> &'static str { Box::leak("i".repeat(n).into_boxed_str()) };
            let build = |s: &'static str| -> Vec<u8> {
                let mut t = rhct::RHCT::new(H.0, H.1, H.2, 10_000_000);
                t.add_isa_string(s);
                to_vec(&t)
            };
            let ok = leak(65525);
            accept(cx, name, "65525-character string (65534-byte node)".into(), || walk_ok(Kind::Rhct, &build(ok), 1));
            for n in [65526usize, 65527, 65535, 65536, 100_000] {
                let s = leak(n);
                refuse(cx, name, format!("{}-character string", n), || build(s));
                refuse(cx, name, format!("{}-character string via IsaStringNode::new", n), || to_vec(&rhct::IsaStringNode::new(s)));
            }
            let _ = isa_pool;
        }
        16 => {
            let name = "RHCT hart info node length (u16)";
            let build = |n_cmo: usize| -> Vec<u8> {
                let mut t = rhct::RHCT::new(H.0, H.1, H.2, 1);
                let i = t.add_isa_string("rv64");
                let c = t.add_cmo(rhct::CmoNode::new(6, 6, 6));
                let mut h = rhct::HartInfoNode::new(0, &i);
                for _ in 0..n_cmo {
                    h = h.with_cmo(&c);
                }
                t.add_hart_info(h);
                to_vec(&t)
            };
            accept(cx, name, "16380 offsets (65532 bytes)".into(), || walk_ok(Kind::Rhct, &build(16379), 3));
            for n in [16380usize, 16381, 16384, 20000, far(&mut r, 16385, 70000)] {
                refuse(cx, name, format!("{} offsets", n + 1), || build(n));
            }
        }
        17 => {
            let name = "RQSC controller length / resource count (u16)";
            let g = || gas::GAS::new(gas::AddressSpace::SystemMemory, 64, 0, gas::AccessSize::QwordAccess, 0x1000);
            let build = |n: usize| -> Vec<u8> {
                let mut t = rqsc::RQSC::new(H.0, H.1, H.2);
                let mut c = rqsc::QoSController::new(rqsc::ControllerType::Capacity, g(), 1, 2, 3);
                for i in 0..n {
                    c.add_resource(rqsc::ResourceStructure::new(rqsc::ResourceType::Cache, 0, rqsc::ResourceID::Cache(rqsc::CacheResource::new(i as u32))));
                }
                t.add_controller(c);
                to_vec(&t)
            };
            accept(cx, name, "3275 minimal resources (65528 bytes)".into(), || walk_ok(Kind::Rqsc, &build(3275), 1));
            for n in [3276usize, 3277, 4000, far(&mut r, 3278, 9000)] {
                refuse(cx, name, format!("{} minimal resources", n), || build(n));
            }
        }
        18 => {
            let name = "RQSC resource structure length (u16)";
            let build = |n: usize| -> Vec<u8> { to_vec(&rqsc::ResourceStructure::new(rqsc::ResourceType::Memory, 7, rqsc::ResourceID::VendorSpecific(0x80, vec![0x5A; n]))) };
            accept(cx, name, "65527 bytes of vendor data (65535-byte structure)".into(), || {
                let b = build(65527);
                if b.len() == 65535 && get(&b, 2, 2) == 65535 {
                    Ok(())
                } else {
                    Err(format!("{} bytes, length field {}", b.len(), get(&b, 2, 2)))
                }
            });
            for n in [65528usize, 65529, 70000, far(&mut r, 65530, 400_000)] {
                refuse(cx, name, format!("{} bytes of vendor data", n), || build(n));
            }
        }
        19 => {
            let name = "aml::Arg / aml::Local operand index";
            accept(cx, name, "Arg(6), Local(7)".into(), || {
                if to_vec(&aml::Arg(6)) == vec![0x6E] && to_vec(&aml::Local(7)) == vec![0x67] {
                    Ok(())
                } else {
                    Err("wrong opcodes".into())
                }
            });
            for n in [7u8, 8, 100, 255] {
                refuse(cx, name, format!("Arg({})", n), || to_vec(&aml::Arg(n)));
            }
            for n in [8u8, 9, 100, 255] {
                refuse(cx, name, format!("Local({})", n), || to_vec(&aml::Local(n)));
            }
        }
        20 => {
            let name = "CEDT CFMWS interleave target count vs ways";
            let build = |code: u8, n: usize| -> Vec<u8> {
                let mut t = cedt::CEDT::new(H.0, H.1, H.2);
                let mut f = crate::tables::real::build_cfmws(0, 1 << 30, 0, 0, code, 0, &[], &[]);
                for i in 0..n {
                    f.add_target((i as u32).to_le_bytes());
                }
                t.add_fixed_memory(f);
                to_vec(&t)
            };
            accept(cx, name, "16 ways, 16 targets".into(), || walk_ok(Kind::Cedt, &build(4, 16), 1));
            for (code, n) in [(4u8, 17usize), (4, 15), (0, 2), (3, 300)] {
                refuse(cx, name, format!("ways code {} with {} targets", code, n), || build(code, n));
            }
        }
        21 => {
            let name = "aml::ResourceTemplate / BufferData size constants (no narrowing)";
            // sizes just past each integer-width boundary are representable and must be exact
            for n in [255usize, 256, 65535, 65536, 70000] {
                let t = Term::BufferData(vec![0x77; n]);
                match term_ok(cx, &t) {
                    Ok(()) => accept(cx, name, format!("{}-byte buffer", n), || Ok(())),
                    Err(e) => cx.violation(format!("[{} build] {}: {}-byte buffer: {}", cx.cfg.profile, name, n, e), J::Null),
                }
            }
        }
        22 => {
            let name = "PPTT processor node via many small adds (length byte never wraps)";
            // every count from 0..=58 is accepted and framed; the first refused count is 59
            for n in [0usize, 1, 57, 58] {
                accept(cx, name, format!("{} resources", n), || {
                    let mut t = pptt::PPTT::new(H.0, H.1, H.2);
                    let c = t.add_cache(pptt::CacheNodeBuilder::default().to_node());
                    let mut p = pptt::ProcessorNode::new(None, 9);
                    for _ in 0..n {
                        p = p.add_cache(&c);
                    }
                    t.add_processor(p);
                    walk_ok(Kind::Pptt, &to_vec(&t), 2)
                });
            }
        }
        _ => {
            let name = "HMAT system locality counts (u32, no narrowing below 2^32)";
            accept(cx, name, "300 x 300 matrix".into(), || {
                let mut t = hmat::HMAT::new(H.0, H.1, H.2);
                let mut s = hmat::SystemLocality::new(hmat::LocalityType::Memory, hmat::DataType::AccessLatency, hmat::MinTransferSize::SizeByteAligned, 1, 300, 300);
                s.set_entry_value(299, 299, 7);
                t.add_system_locality(s);
                walk_ok(Kind::Hmat, &to_vec(&t), 1)
            });
        }
    }
}

pub fn run_sites(cfg: &Cfg) -> Report {
    // every site several times: the fixed amounts repeat, the seeded-random "far beyond" amounts and
    // the entry contents differ per repetition
    let reps: u64 = if cfg.mini { 1 } else if cfg.tier == Tier::Thorough { 24 } else { 6 };
    let mut rep = par_cases(cfg, "refusal.sites", N_SITES * reps, |cx| {
        let s = cx.idx % N_SITES;
        site(cx, s);
    });
    rep.rule(
        "every encoded count/length field whose source is caller-controlled (24 sites): at the field maximum the call must be accepted and correctly framed (walker / parser / reference), \
         at maximum+1 and far beyond (fixed and seeded-random amounts) it must panic; executed in the release profile (overflow checks off) and, via a child process, in the checked profile \
         (overflow checks on); distinct = distinct (site, amount) pairs",
    );
    rep.assume("u32 Length overflows (tables >= 4 GiB) and SLIT N = 65535 (a 4 GiB matrix) are not reachable in this sandbox and are unexplored");
    rep
}

/// Large-allocation case, run only in the thorough tier and only inside the child process so an
/// allocation failure cannot take the monitor down: a real 2^28-byte BufferData must be refused.
pub fn run_huge(cfg: &Cfg) -> Report {
    par_cases(cfg, "refusal.huge", 1, |cx| {
        refuse(cx, "PkgLength total (28 bits) via a real BufferData", "2^28-byte payload".into(), || {
            let b = aml::BufferData::new(vec![0u8; 1 << 28]);
            let mut m = crate::sinks::MonitorSink::default();
            b.to_aml_bytes(&mut m);
            m.data.truncate(16);
            m.data
        });
        accept(cx, "PkgLength total (28 bits) via a real BufferData", "2^28-16-byte payload".into(), || {
            let n = (1usize << 28) - 16;
            let b = aml::BufferData::new(vec![0u8; n]);
            let v = to_vec(&b);
            // 11 PkgLength(4) 0C dword payload
            if v.len() == 1 + 4 + 5 + n && v[0] == 0x11 && v[1] >> 6 == 3 {
                let total = (v[1] & 0xf) as usize | (v[2] as usize) << 4 | (v[3] as usize) << 12 | (v[4] as usize) << 20;
                if total == v.len() - 1 {
                    return Ok(());
                }
                return Err(format!("PkgLength decodes to {} for {} bytes", total, v.len() - 1));
            }
            Err("unexpected framing".into())
        });
    })
}

pub fn tier_huge(cfg: &Cfg) -> bool {
    cfg.tier == Tier::Thorough
}
