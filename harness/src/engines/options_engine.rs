//! C11: option builders set exactly their own specification bit, independently of order and
//! repetition. Every option-bearing structure, all subsets of its options, all orders for small
//! subsets (random orders beyond), repetitions; the whole image is compared with the reference
//! encoding, so a change outside the governed field is as visible as a wrong bit.

use crate::json::{obj, J};
use crate::prng::Rng;
use crate::report::{par_cases, CaseCtx, Cfg, Report, Tier};
use crate::sinks::to_vec;
use crate::tables::judge::{self, Verdict};
use crate::tables::ops::*;
use crate::tables::real::Real;
use crate::tables::reference::RefTable;

fn hdr() -> Hdr {
    Hdr { oem_id: *b"OPTION", oem_table_id: *b"BUILDERS", oem_rev: 0x0102_0304 }
}

/// All orderings to try for the option set `set`: every permutation when small, a few shuffles
/// otherwise; each also with duplicated and randomly repeated calls.
fn orderings(set: &[u8], r: &mut Rng) -> Vec<Vec<u8>> {
    let mut base: Vec<Vec<u8>> = Vec::new();
    if set.len() <= 4 {
        permute(&mut set.to_vec(), 0, &mut base);
    } else {
        base.push(set.to_vec());
        let mut rev = set.to_vec();
        rev.reverse();
        base.push(rev);
        for _ in 0..4 {
            let mut s = set.to_vec();
            for i in (1..s.len()).rev() {
                let j = r.usize_below(i + 1);
                s.swap(i, j);
            }
            base.push(s);
        }
    }
    let mut out = Vec::new();
    for b in base {
        // duplicated calls: a b c a b c
        let mut dup = b.clone();
        dup.extend_from_slice(&b);
        // random repetition 1..=3 of each, interleaved
        let mut rep = Vec::new();
        for x in &b {
            for _ in 0..1 + r.below(3) {
                rep.push(*x);
            }
        }
        for i in (1..rep.len()).rev() {
            let j = r.usize_below(i + 1);
            rep.swap(i, j);
        }
        out.push(b);
        if !dup.is_empty() {
            out.push(dup);
            out.push(rep);
        }
    }
    out
}

fn permute(v: &mut Vec<u8>, k: usize, out: &mut Vec<Vec<u8>>) {
    if k >= v.len() {
        out.push(v.clone());
        return;
    }
    for i in k..v.len() {
        v.swap(k, i);
        permute(v, k + 1, out);
        v.swap(k, i);
    }
}

fn bits(mask: u64, n: u8) -> Vec<u8> {
    (0..n).filter(|i| mask >> i & 1 == 1).collect()
}

/// Run one program and compare the final image with the reference (plus checksum/length).
fn judge_prog(cx: &mut CaseCtx, what: &str, p: &Prog) -> bool {
    cx.eval();
    cx.obs();
    let mut real = Real::new(p);
    let mut rt = RefTable::new(p);
    for op in &p.ops {
        real.apply(op, false);
        rt.apply(op);
    }
    let mut obs = Vec::new();
    real.with_aml(&mut |a| obs = to_vec(a));
    match judge::c04(p.kind, &obs, &rt, cx.cfg.is_known("F10")) {
        Verdict::Held | Verdict::Known(..) => true,
        Verdict::Violated(m, mut d) => {
            if let J::Null = d {
                d = obj(vec![]);
            }
            d.set("ops", J::Str(format!("{:?}", p.ops).chars().take(1200).collect()));
            cx.violation(format!("{}: option builders do not produce exactly the union of their specification bits: {}", what, m), d);
            false
        }
    }
}

struct Structure {
    name: &'static str,
    n_opts: u8,
    /// extra enumeration dimension (attribute choices, states)
    variants: u64,
    make: fn(seq: &[u8], variant: u64, r: &mut Rng) -> Prog,
}

/// The same operation with every caller-supplied *value* replaced by zero (options, enumerated
/// choices and handles untouched).
fn zeroed(op: &Op) -> Op {
    match op {
        Op::MemAff { opts, .. } => Op::MemAff { pd: 0, base: 0, len: 0, opts: opts.clone() },
        Op::RintcAff { uid, opts, pd, .. } => Op::RintcAff { uid: *uid, clock: 0, pd: pd.map(|_| 0), opts: opts.clone() },
        Op::Cache { calls } => Op::Cache { calls: calls.iter().map(|(c, v)| if matches!(c, 1 | 2 | 3 | 7 | 8) { (*c, 0) } else { (*c, *v) }).collect() },
        Op::Tcpa { call, gas, .. } => Op::Tcpa { call: *call, a: 0, b: 0, gas: gas.as_ref().map(|g| GasArg { addr: 0, ..g.clone() }) },
        Op::GicMsi { calls } => Op::GicMsi { calls: calls.iter().map(|(c, _)| (*c, 0)).collect() },
        Op::Gicc { st, sets } => Op::Gicc { st: *st, sets: sets.iter().map(|(s, v)| (*s, v & (1 << 32))).collect() },
        Op::Iommu { id, base, pci, pd, wires } => Op::Iommu { id: *id, base: base.map(|_| 0), pci: pci.map(|_| (0, 0, 0, 0)), pd: pd.map(|_| 0), wires: wires.clone() },
        Op::Sllbi { loc, data, mts, ni, nt, flags, .. } => Op::Sllbi { loc: *loc, data: *data, mts: *mts, base_unit: 0, ni: *ni, nt: *nt, inits: vec![], targs: vec![], cells: vec![], flags: flags.clone() },
        o => o.clone(),
    }
}

fn prog(kind: Kind, ctor: Ctor, ops: Vec<Op>) -> Prog {
    Prog { kind, hdr: hdr(), ctor, ops }
}

const TCPA_GAS: GasArg = GasArg { space: 0, width: 32, offset: 0, access: 3, addr: 0xFED4_0000 };

fn structures() -> Vec<Structure> {
    vec![
        Structure { name: "SRAT memory affinity", n_opts: 3, variants: 1, make: |s, _, r| prog(Kind::Srat, Ctor::None, vec![Op::MemAff { pd: r.u32b(), base: r.u64b(), len: r.u64b(), opts: s.to_vec() }]) },
        Structure {
            name: "SRAT generic initiator",
            n_opts: 2,
            variants: 2,
            make: |s, v, r| {
                let handle = if v == 0 { HandleArg::Acpi { hid: r.bytes(), uid: r.bytes() } } else { HandleArg::Pci { seg: r.u16b(), bus: r.u8b(), dev: 31, func: 7, ctor: true } };
                prog(Kind::Srat, Ctor::None, vec![Op::GenInit { pd: r.u32b(), handle, opts: s.to_vec() }])
            },
        },
        Structure { name: "SRAT RINTC affinity", n_opts: 1, variants: 2, make: |s, v, r| prog(Kind::Srat, Ctor::None, vec![Op::RintcAff { uid: r.bytes(), clock: r.u32b(), pd: if v == 1 { Some(r.u32b()) } else { None }, opts: s.to_vec() }]) },
        Structure { name: "PPTT processor node", n_opts: 5, variants: 1, make: |s, _, r| prog(Kind::Pptt, Ctor::None, vec![Op::Proc { parent: None, id: r.u32b(), caches: vec![], flag_calls: s.to_vec() }]) },
        Structure {
            name: "PPTT cache node",
            n_opts: 8,
            variants: 18,
            make: |s, v, r| {
                // options 0..=7 -> builder calls 1..=8; attribute choices from the variant
                let calls = s
                    .iter()
                    .map(|o| {
                        let c = o + 1;
                        let val = match c {
                            3 => r.u8b() as u32,
                            4 => (v % 3) as u32,
                            5 => ((v / 3) % 3) as u32,
                            6 => ((v / 9) % 2) as u32,
                            7 => r.u16b() as u32,
                            _ => r.u32b(),
                        };
                        (c, val)
                    })
                    .collect::<Vec<_>>();
                // a repeated value-carrying call must carry the same value to stay inside the property
                let mut seen: Vec<(u8, u32)> = Vec::new();
                let calls = calls
                    .into_iter()
                    .map(|(c, val)| match seen.iter().find(|(cc, _)| *cc == c) {
                        Some((_, v0)) => (c, *v0),
                        None => {
                            seen.push((c, val));
                            (c, val)
                        }
                    })
                    .collect();
                prog(Kind::Pptt, Ctor::None, vec![Op::Cache { calls }])
            },
        },
        Structure {
            name: "CEDT fixed memory window",
            n_opts: 5,
            // every interleave-ways encoding x both arithmetics: what an option sets must not depend on the
            // constructor's other arguments
            variants: 16,
            make: |s, v, r| {
                let (code, n) = crate::tables::real::WAYS_CODES[(v % 8) as usize];
                prog(
                    Kind::Cedt,
                    Ctor::None,
                    vec![Op::Cfmws {
                        base: r.u64b(),
                        size: r.u64b(),
                        arith: (v / 8) as u8,
                        gran: r.below(7) as u8,
                        ways: code,
                        qtg: r.u16b(),
                        targets: (0..n).map(|_| r.bytes()).collect(),
                        opts: s.to_vec(),
                    }],
                )
            },
        },
        Structure {
            name: "TCPA server",
            n_opts: 9,
            variants: 1,
            make: |s, _, r| {
                // value-carrying calls keep one value per program so repetition stays idempotent
                let vals: Vec<(u64, u64)> = (0..9).map(|_| (r.u64b(), r.u64b())).collect();
                let ops = s
                    .iter()
                    .map(|c| {
                        let (a, b) = vals[*c as usize];
                        match c {
                            0 => Op::Tcpa { call: 0, a, b, gas: None },
                            3 => Op::Tcpa { call: 3, a: a & 0xff, b: 0, gas: None },
                            4 => Op::Tcpa { call: 4, a: a & 0xffff_ffff, b: 0, gas: None },
                            6 => Op::Tcpa { call: 6, a: (a & 0xffff) | ((a >> 16) % 32) << 16 | ((a >> 24) % 8) << 24, b: 0, gas: None },
                            7 | 8 => Op::Tcpa { call: *c, a: 0, b: 0, gas: Some(GasArg { addr: a, ..TCPA_GAS }) },
                            c => Op::Tcpa { call: *c, a: 0, b: 0, gas: None },
                        }
                    })
                    .collect();
                prog(Kind::TcpaServer, Ctor::None, ops)
            },
        },
        Structure {
            name: "MADT GICC",
            n_opts: 2,
            variants: 3 * 2 * 2,
            make: |s, v, r| {
                // options: 0 = performance_interrupt, 1 = maintenance_interrupt; variant: state x triggers
                let st = (v % 3) as u8;
                let pe = (v / 3) % 2;
                let me = (v / 6) % 2;
                let (pg, mg) = (r.u32b() as u64, r.u32b() as u64);
                let sets = s.iter().map(|o| if *o == 0 { (12u8, pg | (pe << 32)) } else { (13u8, mg | (me << 32)) }).collect();
                prog(Kind::Madt, Ctor::Madt(None), vec![Op::Gicc { st, sets }])
            },
        },
        Structure {
            name: "MADT GIC MSI frame",
            n_opts: 3,
            variants: 1,
            make: |s, _, r| {
                let vals = [r.u32b() as u64, r.u64b(), (r.u16b() as u64) | ((r.u16b() as u64) << 16)];
                prog(Kind::Madt, Ctor::Madt(Some(0)), vec![Op::GicMsi { calls: s.iter().map(|c| (*c, vals[*c as usize])).collect() }])
            },
        },
        Structure {
            name: "HMAT system locality",
            n_opts: 2,
            // every locality type x every minimum-transfer-size variant x every data type
            variants: 4 * 12 * 6,
            make: |s, v, r| {
                prog(
                    Kind::Hmat,
                    Ctor::None,
                    vec![Op::Sllbi {
                        loc: (v % 4) as u8,
                        data: ((v / 48) % 6) as u8,
                        mts: ((v / 4) % 12) as u8,
                        base_unit: r.u64b(),
                        ni: 1,
                        nt: 2,
                        inits: vec![(0, 7)],
                        targs: vec![(1, 9)],
                        cells: vec![(0, 1, 5)],
                        flags: s.to_vec(),
                    }],
                )
            },
        },
        Structure {
            name: "MADT enable states",
            n_opts: 0,
            variants: 9,
            make: |_, v, r| {
                let st = (v % 3) as u8;
                let op = match v / 3 {
                    0 => Op::Lapic { uid: r.u8b(), apic: r.u8b(), st },
                    1 => Op::Rintc { st, hart: r.u64b(), uid: r.u32b(), ext: r.u32b(), imsic_base: r.u64b(), imsic_size: r.u32b() },
                    _ => Op::Gicc { st, sets: vec![] },
                };
                prog(Kind::Madt, Ctor::Madt(None), vec![op])
            },
        },
        Structure {
            name: "RIMT booleans",
            n_opts: 0,
            variants: 4 + 8 * 4 + 4,
            make: |_, v, r| {
                let ops = if v < 4 {
                    vec![Op::Iommu { id: r.u16b(), base: Some(r.u64b()), pci: if v & 1 == 1 { Some((r.u16b(), r.u8b(), 3, 1)) } else { None }, pd: if v & 2 == 2 { Some(r.u32b()) } else { None }, wires: None }]
                } else if v < 36 {
                    let m = (v - 4) % 8;
                    let rc = (v - 4) / 8;
                    vec![
                        Op::Iommu { id: 1, base: None, pci: None, pd: None, wires: None },
                        Op::RootComplex {
                            id: r.u16b(),
                            seg: r.u16b(),
                            ats: rc & 1 == 1,
                            pri: rc & 2 == 2,
                            maps: Some(vec![MapArg { src: r.u32b(), dst: r.u32b(), num: r.u32b(), iommu: 0, ats: m & 1 == 1, pri: m & 2 == 2, rciep: m & 4 == 4 }]),
                        },
                    ]
                } else {
                    let w = v - 36;
                    vec![Op::Iommu { id: 2, base: None, pci: None, pd: None, wires: Some(vec![WireArg { num: r.u32b(), level: w & 1 == 1, high: w & 2 == 2, aplic: r.u16b() }]) }]
                };
                prog(Kind::Rimt, Ctor::None, ops)
            },
        },
        Structure {
            name: "HEST sources",
            n_opts: 0,
            variants: 3 * 3 + 4,
            make: |_, v, r| {
                let op = if v < 9 {
                    let ctor = match v % 3 {
                        0 => None,
                        1 => Some((false, r.u8b(), 31, 7)),
                        _ => Some((true, r.u8b(), 0, 0)),
                    };
                    Op::Aer { kind: (v / 3) as u8, ctor, sets: vec![(0, r.u32b())] }
                } else {
                    let w = v - 9;
                    Op::Ghes { v2: w & 1 == 1, source: r.u16b(), enabled: w & 2 == 2, sets: vec![], status: None, notif: None, ack: None }
                };
                prog(Kind::Hest, Ctor::None, vec![op])
            },
        },
    ]
}

fn fadt_prog(flags: &[u8], profile: Option<u8>, extra: u8, r: &mut Rng) -> Prog {
    let mut ops: Vec<Op> = flags.iter().map(|f| Op::Fadt { call: 6, a: *f as u64, b: 0, c: 0 }).collect();
    if let Some(p) = profile {
        let at = r.usize_below(ops.len() + 1);
        ops.insert(at, Op::Fadt { call: 8, a: p as u64, b: 0, c: 0 });
        if r.bool() {
            ops.push(Op::Fadt { call: 8, a: p as u64, b: 0, c: 0 }); // repeated with the same value
        }
    }
    // other enumerated setters, one value each, mixed in for independence
    let v = r.u64b();
    let e = match extra % 7 {
        0 => None,
        1 => Some(Op::Fadt { call: 4, a: 0, b: 0, c: 0 }),
        2 => Some(Op::Fadt { call: 5, a: 0, b: 0, c: 0 }),
        3 => Some(Op::Fadt { call: 0, a: v & 0xffff_ffff, b: 0, c: 0 }),
        4 => Some(Op::Fadt { call: 1, a: v, b: 0, c: 0 }),
        5 => Some(Op::Fadt { call: 2, a: v & 0xffff_ffff, b: 0, c: 0 }),
        _ => Some(Op::Fadt { call: 3, a: v, b: 0, c: 0 }),
    };
    if let Some(e) = e {
        let at = r.usize_below(ops.len() + 1);
        ops.insert(at, e.clone());
        if r.bool() {
            let at = r.usize_below(ops.len() + 1);
            ops.insert(at, e);
        }
    }
    prog(Kind::Fadt, Ctor::None, ops)
}

pub fn run(cfg: &Cfg) -> Report {
    let thorough = cfg.tier == Tier::Thorough;
    let mut rep = Report::default();
    rep.rule(
        "for each option-bearing structure: every subset of its option builders, every call order for subsets of <= 4 (6 orders beyond), each order also with duplicated and 1-3x repeated calls, \
         every enumerated state; whole image compared with the reference encoding (flag field = union of specification bits, no other byte changes); \
         distinct = distinct (structure, option set, order, variant) programs",
    );
    rep.assume("overwrite-style setters of plain values (PM profile, acpi_enable/disable, dsdt_32/64, value-carrying builders) are repeated only with the same value; the bit-pattern attributes of the PPTT cache node are also repeated with different values (union of bits)");
    // the enumerated PPTT cache attributes are bit patterns OR-ed into one attribute byte: the statement's
    // "union of the specification-defined bits of exactly the options invoked, any number of times" is
    // well defined for them even when one attribute is given twice with different values. All call
    // sequences of length 1..=3 over the 8 (attribute, value) pairs, with and without a value-carrying
    // neighbour.
    let pairs: [(u8, u32); 8] = [(4, 0), (4, 1), (4, 2), (5, 0), (5, 1), (5, 2), (6, 0), (6, 1)];
    rep.merge(par_cases(cfg, "options.pptt_attribute_unions", 8 + 64 + 512, |cx| {
        let mut i = cx.idx;
        let len = if i < 8 {
            1
        } else if i < 72 {
            i -= 8;
            2
        } else {
            i -= 72;
            3
        };
        let mut calls: Vec<(u8, u32)> = Vec::new();
        for _ in 0..len {
            calls.push(pairs[(i % 8) as usize]);
            i /= 8;
        }
        let mut r = cx.rng.clone();
        if cx.idx % 2 == 1 {
            calls.insert(r.usize_below(calls.len() + 1), (7, r.u16b() as u32));
        }
        let p = prog(Kind::Pptt, Ctor::None, vec![Op::Cache { calls: calls.clone() }]);
        if judge_prog(cx, "PPTT cache node, attribute given repeatedly", &p) {
            cx.rep.cov("pptt_attribute_sequence");
            cx.rep.distinct(&calls);
        }
    }));
    let structs = structures();
    for (si, s) in structs.iter().enumerate() {
        let n_masks = 1u64 << s.n_opts;
        let name = s.name;
        let stream = format!("options.{}", si);
        let mut r = par_cases(cfg, &stream, n_masks * s.variants, |cx| {
            let mask = cx.idx % n_masks;
            let variant = cx.idx / n_masks;
            let set = bits(mask, s.n_opts);
            let mut r = cx.rng.clone();
            for seq in orderings(&set, &mut r) {
                let p = (s.make)(&seq, variant, &mut r);
                if !judge_prog(cx, name, &p) {
                    return;
                }
                // the same calls with every supplied value equal to zero: a "values supplied" flag must
                // not depend on what the values are
                let pz = Prog { ops: p.ops.iter().map(zeroed).collect(), ..p.clone() };
                if !judge_prog(cx, name, &pz) {
                    return;
                }
                cx.rep.distinct(&(si, seq.clone(), variant));
            }
            cx.rep.cov(&format!("structure:{}", name));
            if mask == n_masks - 1 && variant == 0 {
                let p = (s.make)(&set, variant, &mut r);
                cx.sample(|| obj(vec![("structure", name.into()), ("options_called", format!("{:?}", set).into()), ("ops", J::Str(format!("{:?}", p.ops).chars().take(400).collect()))]));
            }
        });
        r.exhaustive(&format!("C11 {}: all {} option subsets x {} variants", name, n_masks, s.variants));
        rep.merge(r);
    }
    // FADT: 25 flag values. subsets of size <= 3, their complements, random subsets; x 9 profiles
    let mut small: Vec<u32> = vec![0];
    for a in 0..25u32 {
        small.push(1 << a);
        for b in a + 1..25 {
            small.push(1 << a | 1 << b);
            for c in b + 1..25 {
                small.push(1 << a | 1 << b | 1 << c);
            }
        }
    }
    let ns = small.len() as u64;
    rep.exhaustive("C11 FADT: all flag subsets of size <= 3 and their complements, each with every PM profile");
    rep.merge(par_cases(cfg, "options.fadt_small", ns * 2, |cx| {
        let m = small[(cx.idx / 2) as usize];
        let mask = if cx.idx % 2 == 0 { m } else { !m & 0x1ff_ffff };
        let mut r = cx.rng.clone();
        let mut flags = bits(mask as u64, 25);
        for i in (1..flags.len()).rev() {
            let j = r.usize_below(i + 1);
            flags.swap(i, j);
        }
        if r.bool() && !flags.is_empty() {
            let d = flags[r.usize_below(flags.len())];
            flags.push(d); // a repeated flag
        }
        for profile in 0..9u8 {
            let p = fadt_prog(&flags, Some(profile), (cx.idx % 7) as u8 + profile, &mut r);
            if !judge_prog(cx, "FADT", &p) {
                return;
            }
        }
        let p = fadt_prog(&flags, None, 0, &mut r);
        if judge_prog(cx, "FADT", &p) {
            cx.rep.distinct(&("fadt", mask));
            cx.rep.cov("structure:FADT");
        }
    }));
    let nrand = cfg.scaled(if thorough { 1 << 25 } else { 100_000 });
    if thorough && cfg.scale_pct >= 100 {
        rep.exhaustive("C11 FADT: all 2^25 subsets of the flag values");
    }
    rep.merge(par_cases(cfg, "options.fadt_masks", nrand / 64, |cx| {
        let mut r = cx.rng.clone();
        for k in 0..64u64 {
            let mask = if thorough { (cx.idx * 64 + k) as u32 } else { r.next_u64() as u32 & 0x1ff_ffff };
            let flags = bits(mask as u64, 25);
            let p = fadt_prog(&flags, Some((mask % 9) as u8), (mask % 7) as u8, &mut r);
            if !judge_prog(cx, "FADT", &p) {
                return;
            }
        }
        cx.rep.distinct(&("fadtblock", cx.idx));
    }));
    rep
}
