//! AML engine: C06 (parse-back), the AML half of C14 (sinks) and C15 (alternative paths).

use crate::amlref::build::{build_bytes, with_object};
use crate::amlref::gen::*;
use crate::amlref::parse::parse_all;
use crate::amlref::term::*;
use crate::json::{hex, hex_window, obj, J};
use crate::prng::{hash_bytes, Rng};
use crate::report::{par_cases, CaseCtx, Cfg, Report, Tier};
use crate::sinks::{observe_all_sinks, sum8, to_vec};

pub fn term_json(t: &Term) -> J {
    let s = format!("{:?}", t);
    J::Str(if s.len() > 1500 { format!("{}… ({} chars)", &s[..1500], s.len()) } else { s })
}

/// C06 oracle on one term: build through the crate (both modes), parse, compare trees.
/// Returns the serialised bytes when everything held.
pub fn check_term(cx: &mut CaseCtx, t: &Term, both_modes: bool) -> Option<Vec<u8>> {
    let bytes = build_bytes(t, false);
    cx.obs();
    if both_modes {
        let pre = build_bytes(t, true);
        if pre != bytes {
            let i = pre.iter().zip(bytes.iter()).position(|(a, b)| a != b).unwrap_or(pre.len().min(bytes.len()));
            cx.violation(
                format!("building from real child objects and from pre-serialised children gives different bytes (first difference at {})", i),
                obj(vec![("term", term_json(t)), ("native", hex_window(&bytes, i, 24).into()), ("preserialised", hex_window(&pre, i, 24).into())]),
            );
            return None;
        }
    }
    let want = canon(t);
    match parse_all(&bytes, &call_arity) {
        Err(e) => {
            cx.violation(
                format!("independent AML parser rejects the emitted bytes of a {}: {}", t.ctor_name(), e),
                obj(vec![("term", term_json(t)), ("bytes_head", hex(&bytes[..bytes.len().min(96)]).into()), ("len", bytes.len().into())]),
            );
            None
        }
        Ok((got, windows)) => {
            if got.len() != 1 || got[0] != want {
                let g = format!("{:?}", got);
                let w = format!("{:?}", want);
                let i = g.bytes().zip(w.bytes()).position(|(a, b)| a != b).unwrap_or(0);
                cx.violation(
                    format!("emitted bytes of a {} parse to a different tree than was built", t.ctor_name()),
                    obj(vec![
                        ("term", term_json(t)),
                        ("parsed_around_difference", g.chars().skip(i.saturating_sub(80)).take(240).collect::<String>().into()),
                        ("expected_around_difference", w.chars().skip(i.saturating_sub(80)).take(240).collect::<String>().into()),
                        ("bytes_head", hex(&bytes[..bytes.len().min(96)]).into()),
                    ]),
                );
                return None;
            }
            for (label, k, _) in windows {
                cx.rep.cov(&format!("window:{}:pkglen{}", label, k + 1));
            }
            Some(bytes)
        }
    }
}

fn neg_control(cx: &mut CaseCtx, t: &Term, bytes: &[u8]) {
    if bytes.is_empty() {
        return;
    }
    let want = canon(t);
    let mut r = Rng::new(hash_bytes(bytes) ^ cx.idx);
    let mut bad = bytes.to_vec();
    let k = r.usize_below(bad.len());
    bad[k] ^= 1 << r.below(8);
    cx.rep.neg_controls += 1;
    let rejected = match parse_all(&bad, &call_arity) {
        Err(_) => true,
        Ok((got, _)) => got.len() != 1 || got[0] != want,
    };
    if !rejected {
        cx.rep.inconclusive(format!("negative control: a flipped bit at byte {} of a {}-byte stream was not noticed by the C06 oracle", k, bytes.len()));
    }
}

fn note_ctors(cx: &mut CaseCtx, t: &Term) {
    let mut names: Vec<&'static str> = Vec::new();
    t.visit(&mut |n| {
        let c = n.ctor_name();
        if !names.contains(&c) {
            names.push(c);
        }
    });
    for n in &names {
        cx.rep.cov(&format!("ctor:{}", n));
    }
    names.sort();
    cx.rep.distinct(&(names, t.depth(), t.node_count().min(64)));
}

pub fn run_c06(cfg: &Cfg) -> Report {
    let mut rep = Report::default();
    let thorough = cfg.tier == Tier::Thorough;
    rep.rule(
        "random term trees over every exported constructor (depth/size bounded), built through the real crate in native and pre-serialised modes, \
         parsed by an independent ACPI-grammar parser and compared with the canonicalised tree; plus every length-prefixed kind swept across the \
         63/64, 4095/4096 (and 2^20 in thorough) body-size boundaries, singly and nested; distinct = distinct (constructor set, depth, size) shapes and distinct byte streams",
    );
    rep.assume("method invocations use reserved names CALn whose arity n the parser is told; operands are parsed as generic TermArgs (neither crate nor oracle type them)");
    let n = cfg.scaled(if thorough { 12_000_000 } else { 200_000 });
    let (max_depth, max_nodes) = if thorough { (14usize, 5000i64) } else { (8, 200) };
    rep.merge(par_cases(cfg, "aml.random", n, |cx| {
        let mut r = cx.rng.clone();
        let depth = 1 + r.usize_below(max_depth);
        let mut budget = match r.below(10) {
            0 => max_nodes,
            1..=3 => max_nodes / 8 + 5,
            _ => 30,
        };
        let t = gen_term(&mut r, depth, &mut budget);
        cx.eval();
        if let Some(bytes) = check_term(cx, &t, true) {
            note_ctors(cx, &t);
            cx.rep.distinct(&hash_bytes(&bytes));
            if cx.idx % 7 == 0 {
                neg_control(cx, &t, &bytes);
            }
            if t.node_count() > 3 {
                cx.sample(|| obj(vec![("term", term_json(&t)), ("bytes", hex(&bytes[..bytes.len().min(64)]).into()), ("len", bytes.len().into())]));
            }
        }
    }));
    // boundary sweeps: each prefixed kind, body sizes around 63/64 and 4095/4096
    let mut sizes: Vec<usize> = (0..=80).collect();
    sizes.extend(4060..=4110);
    sizes.extend(250..=260); // Byte/Word width boundary of embedded size constants
    sizes.extend(65520..=65545); // Word/DWord width boundary of embedded size constants
    if thorough {
        sizes.extend((1 << 20) - 14..=(1 << 20) + 6);
        sizes.extend([70000, 131072]);
    }
    let nk = PREFIXED_KINDS.len() as u64;
    let ns = sizes.len() as u64;
    rep.merge(par_cases(cfg, "aml.boundary", nk * ns, |cx| {
        let k = (cx.idx / ns) as usize;
        let pad = sizes[(cx.idx % ns) as usize];
        let mut r = cx.rng.clone();
        let shape = [(false, 1usize), (true, 1), (false, 2), (true, 2), (false, 3), (true, 5)][(pad + k) % 6];
        let t = padded_with_path(k, pad, &mut r, shape.0, shape.1);
        cx.eval();
        if check_term(cx, &t, pad < 5000).is_some() {
            cx.rep.cov(&format!("boundary_kind:{}", PREFIXED_KINDS[k]));
            cx.rep.distinct(&("boundary", k, pad));
        }
    }));
    // nested crossings: parent and child both at a boundary
    let nest: Vec<usize> = vec![50, 55, 56, 57, 58, 59, 60, 61, 62, 63, 64, 4080, 4085, 4086, 4087, 4088, 4089, 4090, 4091, 4092, 4093, 4094, 4095, 4096];
    let nn = nest.len() as u64;
    rep.merge(par_cases(cfg, "aml.nested", nk * nk * nn, |cx| {
        let ko = (cx.idx / (nk * nn)) as usize;
        let ki = ((cx.idx / nn) % nk) as usize;
        let pad = nest[(cx.idx % nn) as usize];
        let mut r = cx.rng.clone();
        let inner = padded(ki, pad, &mut r);
        // wrap: outer kind with the inner as its only child where the outer takes term children
        let path = PathT { root: false, segs: vec![gen_seg(&mut r)] };
        let outer = match ko {
            0 => Term::Package(vec![inner]),
            1 => Term::PackageBuilder(vec![inner]),
            2 => Term::VarPackage(Box::new(inner)),
            4 => Term::Device(path, vec![inner]),
            5 => Term::Scope(path, vec![inner]),
            6 => Term::ScopeRaw(path, vec![inner]),
            7 => Term::Method { path, args: 0, serialized: false, body: vec![inner] },
            9 => Term::If(Box::new(Term::Ones), vec![inner]),
            10 => Term::Else(vec![inner]),
            11 => Term::While(Box::new(Term::One), vec![inner]),
            12 => Term::BufferTerm(Box::new(inner)),
            14 => Term::PowerResource { path, level: 0, order: 0, body: vec![inner] },
            _ => return, // ResourceTemplate, Field, BufferData take no term children
        };
        cx.eval();
        if check_term(cx, &outer, true).is_some() {
            cx.rep.distinct(&("nested", ko, ki, pad));
        }
    }));
    // term lists carry no element count: every list-taking object with more children than a byte could count
    let many: [usize; 8] = [254, 255, 256, 257, 300, 511, 512, 700];
    rep.merge(par_cases(cfg, "aml.many_children", 10 * many.len() as u64, |cx| {
        let kind = (cx.idx / many.len() as u64) as usize;
        let n = many[(cx.idx % many.len() as u64) as usize];
        let mut r = cx.rng.clone();
        let kids: Vec<Term> = (0..n)
            .map(|_| match r.below(5) {
                0 => Term::Zero,
                1 => Term::One,
                2 => Term::Ones,
                3 => Term::U8(r.u8b()),
                _ => Term::U16(r.u16b()),
            })
            .collect();
        let path = PathT { root: r.bool(), segs: vec![gen_seg(&mut r)] };
        let t = match kind {
            0 => Term::Device(path, kids),
            1 => Term::Scope(path, kids),
            2 => Term::ScopeRaw(path, kids),
            3 => Term::Method { path, args: r.below(8) as u8, serialized: r.bool(), body: kids },
            4 => Term::If(Box::new(Term::One), kids),
            5 => Term::Else(kids),
            6 => Term::While(Box::new(Term::One), kids),
            7 => Term::PowerResource { path, level: r.u8b(), order: r.u16b(), body: kids },
            8 => Term::ResourceTemplate((0..n).map(|_| crate::amlref::gen::gen_res(&mut r)).collect()),
            _ => Term::Field { path, access: 0, lock: 0, update: 0, entries: crate::amlref::gen::gen_field_entries_n(&mut r, n) },
        };
        cx.eval();
        if check_term(cx, &t, false).is_some() {
            cx.rep.cov("list_object_with_more_children_than_a_byte_counts");
            cx.rep.distinct(&("many", kind, n));
        }
    }));
    // coverage floor: every exported constructor and every (length-prefixed kind x PkgLength width
    // reachable in this tier) cell must have been observed
    if cfg.replay.is_none() && !cfg.mini && cfg.scale_pct >= 100 && rep.violation_count == 0 {
        let ctors = [
            "ZERO", "ONE", "ONES", "u8", "u16", "u32", "u64", "usize", "String", "&'static str", "Path", "Name::new_field_name", "Name", "Package", "PackageBuilder",
            "VarPackageTerm", "BufferData", "BufferTerm", "Uuid", "EISAName", "ResourceTemplate", "Device", "Scope", "Scope::raw", "Method", "MethodCall", "Field", "OpRegion",
            "If", "Else", "While", "Equal", "LessThan", "GreaterThan", "NotEqual", "GreaterEqual", "LessEqual", "Arg", "Local", "Store", "Mutex", "Acquire", "Release", "Notify",
            "ObjectType", "SizeOf", "Return", "DeRefOf", "Add", "Concat", "Subtract", "Multiply", "ShiftLeft", "ShiftRight", "And", "Nand", "Or", "Nor", "Xor", "ConcatRes", "Mod",
            "Index", "ToString", "CreateDWordField", "CreateQWordField", "ToBuffer", "ToInteger", "CreateField", "Mid", "PowerResource",
        ];
        for c in ctors {
            if !rep.cov.contains_key(&format!("ctor:{}", c)) {
                rep.inconclusive(format!("coverage floor: constructor {} never appeared in a checked tree", c));
            }
        }
        for label in ["Scope", "Buffer", "Package", "VarPackage", "Method", "Field", "Device", "PowerResource", "If", "Else", "While"] {
            for w in 1..=(if thorough { 4 } else { 3 }) {
                if !rep.cov.contains_key(&format!("window:{}:pkglen{}", label, w)) {
                    rep.inconclusive(format!("coverage floor: no {} with a {}-byte PkgLength was parsed", label, w));
                }
            }
        }
    }
    rep
}

/// C14, AML half: every generated object through all six sinks, twice.
pub fn run_c14_aml(cfg: &Cfg) -> Report {
    let thorough = cfg.tier == Tier::Thorough;
    let n = cfg.scaled(if thorough { 400_000 } else { 12_000 });
    let mut rep = par_cases(cfg, "aml.sinks", n, |cx| {
        let mut r = cx.rng.clone();
        let depth = 1 + r.usize_below(6);
        let mut budget = if cx.cfg.mini { 12 } else if cx.idx % 50 == 0 { 600 } else { 40 };
        let t = gen_term(&mut r, depth, &mut budget);
        cx.eval();
        with_object(&t, |o| {
            let first = to_vec(o);
            let second = to_vec(o);
            cx.obs();
            if first != second {
                cx.violation("two serialisations of the same AML object differ".into(), obj(vec![("term", term_json(&t))]));
                return;
            }
            if acpi_tables::u8sum(o) != sum8(&first) {
                cx.violation("u8sum() of an AML object differs from the arithmetic sum of its bytes".into(), obj(vec![("term", term_json(&t))]));
                return;
            }
            if first.len() <= 6000 {
                let s = observe_all_sinks(o);
                cx.rep.cov("six_sinks_compared");
                cx.rep.distinct(&("chunking", s.full_pattern));
                for (name, b) in [("Vec<u8>", &s.vec), ("ByteOnly", &s.byte_only), ("Full", &s.full), ("Sdt", &s.sdt_tail), ("PackageBuilder", &s.pkg_tail)] {
                    if b != &first {
                        let i = b.iter().zip(first.iter()).position(|(x, y)| x != y).unwrap_or(b.len().min(first.len()));
                        cx.violation(
                            format!("AML stream delivered to sink {} differs at byte {} ({} vs {} bytes)", name, i, b.len(), first.len()),
                            obj(vec![("term", term_json(&t))]),
                        );
                        return;
                    }
                }
                if s.checksum_raw != sum8(&first) {
                    cx.violation("Checksum sink disagrees with the arithmetic sum of an AML stream".into(), obj(vec![("term", term_json(&t))]));
                    return;
                }
                if s.sdt_sum != 0 || s.sdt_len_field as usize != s.sdt_total {
                    cx.violation("generic table used as an AML sink ends with a bad checksum or Length".into(), obj(vec![("term", term_json(&t))]));
                }
            }
            cx.rep.distinct(&hash_bytes(&first));
        });
    });
    rep.rule("AML half: random term trees, each real object serialised twice and into six sink kinds");
    // the error-record objects of hest.rs (serialised field by field through word/dword/byte/slice calls)
    rep.merge(par_cases(cfg, "hest.error_records", cfg.scaled(if thorough { 200_000 } else { 8_000 }), |cx| {
        let mut r = cx.rng.clone();
        cx.eval();
        let check = |cx: &mut CaseCtx, what: &str, o: &dyn acpi_tables::Aml, desc: String| {
            let first = to_vec(o);
            let second = to_vec(o);
            cx.obs();
            if first != second {
                cx.violation(format!("two serialisations of the same {} differ", what), obj(vec![("value", desc.into())]));
                return;
            }
            if acpi_tables::u8sum(o) != sum8(&first) {
                cx.violation(format!("u8sum() of a {} differs from the arithmetic sum of its bytes", what), obj(vec![("value", desc.into())]));
                return;
            }
            let s = observe_all_sinks(o);
            for (name, b) in [("Vec<u8>", &s.vec), ("ByteOnly", &s.byte_only), ("Full", &s.full), ("Sdt", &s.sdt_tail), ("PackageBuilder", &s.pkg_tail)] {
                if b != &first {
                    let i = b.iter().zip(first.iter()).position(|(x, y)| x != y).unwrap_or(b.len().min(first.len()));
                    cx.violation(format!("{} delivered to sink {} differs at byte {} ({} vs {} bytes)", what, name, i, b.len(), first.len()), obj(vec![("value", desc.into())]));
                    return;
                }
            }
            if s.checksum_raw != sum8(&first) {
                cx.violation(format!("Checksum sink disagrees with the arithmetic sum of a {}", what), obj(vec![("value", desc.into())]));
                return;
            }
            if s.sdt_sum != 0 || s.sdt_len_field as usize != s.sdt_total {
                cx.violation(format!("generic table used as a sink for a {} ends with a bad checksum or Length", what), obj(vec![("value", desc.into())]));
                return;
            }
            cx.rep.cov(&format!("error_record:{}", what));
            cx.rep.distinct(&hash_bytes(&first));
        };
        if cx.idx % 4 == 0 {
            let (c, u, sev) = (r.u32b(), r.u32b(), r.below(4) as u8);
            let o = acpi_tables::hest::GenericErrorStatus::new(c, u, crate::tables::real::error_severity(sev));
            check(cx, "hest::GenericErrorStatus", &o, format!("{} {} {}", c, u, sev));
        } else {
            let a = crate::tables::gen::gen_error_data(&mut r);
            let o = crate::tables::real::build_error_data(&a);
            check(cx, "hest::GenericErrorData", &o, format!("{:?}", a));
        }
    }));
    rep.merge(run_c14_raw_forms(cfg));
    rep
}

/// C14: raw in-memory form == serialised form for the public `Aml + IntoBytes` value types that
/// are not table entries of their own in the tables engine (GAS, notification structure, RQSC
/// resource ids, FACS with caller-set fields), over boundary-biased field values.
pub fn run_c14_raw_forms(cfg: &Cfg) -> Report {
    use crate::tables::gen::gen_gas;
    use crate::tables::ops::NotifArg;
    use crate::tables::real::{build_notification, facs_set_field, mk_gas};
    use acpi_tables::{facs::FACS, rqsc, Aml};
    use zerocopy::IntoBytes;
    let thorough = cfg.tier == Tier::Thorough;
    let n = cfg.scaled(if thorough { 2_000_000 } else { 60_000 });
    fn cmp(cx: &mut CaseCtx, what: &str, raw: &[u8], a: &dyn Aml, desc: String) -> bool {
        cx.obs();
        let ser = to_vec(a);
        if raw != &ser[..] {
            let i = raw.iter().zip(ser.iter()).position(|(x, y)| x != y).unwrap_or(raw.len().min(ser.len()));
            cx.violation(
                format!("{}: raw in-memory form differs from the serialised form at byte {}", what, i),
                obj(vec![("value", desc.into()), ("raw", hex(raw).into()), ("serialised", hex(&ser).into())]),
            );
            return false;
        }
        if acpi_tables::u8sum(a) != sum8(raw) {
            cx.violation(format!("{}: u8sum() differs from the arithmetic sum of the raw form", what), obj(vec![("value", desc.into())]));
            return false;
        }
        cx.rep.cov(&format!("raw_form:{}", what));
        true
    }
    let mut grid = par_cases(cfg, "raw.gas_grid", 13 * 5 * 7 * 3 * 3, |cx| {
        // every address space x access size x a grid of widths / offsets / addresses
        let mut i = cx.idx;
        let space = (i % 13) as u8;
        i /= 13;
        let access = (i % 5) as u8;
        i /= 5;
        let width = [0u8, 1, 8, 16, 32, 64, 255][(i % 7) as usize];
        i /= 7;
        let offset = [0u8, 1, 255][(i % 3) as usize];
        i /= 3;
        let addr = [0u64, 0x1000, 0xFFFF_8000_0000_0001][(i % 3) as usize];
        let g = crate::tables::ops::GasArg { space, width, offset, access, addr };
        let o = mk_gas(&g);
        cx.eval();
        if cmp(cx, "gas::GAS", o.as_bytes(), &o, format!("{:?}", g)) {
            cx.rep.distinct(&cx.idx);
        }
    });
    grid.exhaustive("C14 raw form of gas::GAS over 13 address spaces x 5 access sizes x 7 widths x 3 offsets x 3 addresses");
    let mut rep_forms = par_cases(cfg, "raw.forms", n, |cx| {
        let mut r = cx.rng.clone();
        cx.eval();
        match cx.idx % 8 {
            0 | 1 | 2 => {
                let mut g = gen_gas(&mut r);
                g.space = (cx.idx / 8 % 13) as u8; // every address space in turn
                if cx.idx % 3 == 0 {
                    g.addr = r.next_u64() | 0xFFFF_0000_0000_0000; // high address bits set
                }
                let o = mk_gas(&g);
                if cmp(cx, "gas::GAS", o.as_bytes(), &o, format!("{:?}", g)) {
                    cx.rep.distinct(&format!("{:?}", g));
                }
            }
            3 => {
                let n = NotifArg { ty: r.below(16) as u8, sets: (0..r.below(8)).map(|_| (r.below(7) as u8, r.u32b())).collect() };
                let o = build_notification(&n);
                if cmp(cx, "hest::NotificationStructure", o.as_bytes(), &o, format!("{:?}", n)) {
                    cx.rep.distinct(&format!("{:?}", n));
                }
            }
            4 => {
                let v = r.u32b();
                let o = rqsc::CacheResource::new(v);
                cmp(cx, "rqsc::CacheResource", o.as_bytes(), &o, format!("{:#x}", v));
                let o = rqsc::PCIDeviceResource::new(v);
                cmp(cx, "rqsc::PCIDeviceResource", o.as_bytes(), &o, format!("{:#x}", v));
                cx.rep.distinct(&("rqsc32", v));
            }
            5 => {
                let (a, b) = (r.u64b(), r.u32b());
                let o = rqsc::ACPIDeviceResource::new(a, b);
                cmp(cx, "rqsc::ACPIDeviceResource", o.as_bytes(), &o, format!("{:#x},{:#x}", a, b));
                let o = rqsc::MemoryAffinityStructureResource::new(b, a);
                cmp(cx, "rqsc::MemoryAffinityStructureResource", o.as_bytes(), &o, format!("{:#x},{:#x}", b, a));
                cx.rep.distinct(&("rqsc64", a, b));
            }
            6 => {
                // RSDP with caller-assigned pub fields (revision, length, checksums, oem id, XSDT address)
                let mut p = acpi_tables::rsdp::Rsdp::new(r.bytes(), r.u64b());
                let mut d = String::new();
                for _ in 0..r.below(4) {
                    match r.below(6) {
                        0 => {
                            p.revision = *r.pick(&[0u8, 1, 2, 3, 255]);
                            d.push_str(&format!("revision={} ", p.revision));
                        }
                        1 => {
                            p.length = r.u32b().into();
                            d.push_str("length ");
                        }
                        2 => {
                            p.checksum = r.u8b();
                            d.push_str("checksum ");
                        }
                        3 => {
                            p.extended_checksum = r.u8b();
                            d.push_str("extended_checksum ");
                        }
                        4 => {
                            p.oem_id = r.bytes();
                            d.push_str("oem_id ");
                        }
                        _ => {
                            p.xsdt_addr = r.u64b().into();
                            d.push_str("xsdt_addr ");
                        }
                    }
                }
                if cmp(cx, "rsdp::Rsdp", p.as_bytes(), &p, d.clone()) {
                    cx.rep.distinct(&(d, p.as_bytes().to_vec()));
                }
            }
            _ => {
                let mut f = FACS::new();
                let mut d = String::new();
                for _ in 0..r.below(5) {
                    let (i, v) = (r.usize_below(7), r.u64b());
                    facs_set_field(&mut f, i, v);
                    d.push_str(&format!("field{}={:#x} ", i, v));
                }
                if cmp(cx, "facs::FACS", f.as_bytes(), &f, d.clone()) {
                    cx.rep.distinct(&d);
                }
            }
        }
    });
    rep_forms.merge(grid);
    rep_forms
}

/// C15: alternative construction paths.
pub fn run_c15(cfg: &Cfg) -> Report {
    let thorough = cfg.tier == Tier::Thorough;
    let mut rep = Report::default();
    rep.rule(
        "Scope::raw vs Scope::new and PackageBuilder vs Package::new over generated child lists and body sizes 0..4200 exhaustively (+2^20 neighbourhood in thorough); \
         &'static str vs String and usize vs u64 carriers; distinct = distinct (path shape, body size) / element-list shapes",
    );
    // 1. body-size sweep, exhaustive 0..=4200 x path shapes
    let shapes: [(bool, usize); 6] = [(false, 1), (true, 1), (false, 2), (true, 2), (false, 3), (true, 5)];
    let mut sizes: Vec<usize> = (0..=4200).collect();
    if thorough {
        sizes.extend((1 << 20) - 20..=(1 << 20) + 8);
    }
    let ns = sizes.len() as u64;
    rep.exhaustive("C15 scope body sizes 0..=4200 x 6 path shapes");
    rep.merge(par_cases(cfg, "alt.scope_sizes", ns * shapes.len() as u64, |cx| {
        let (root, nseg) = shapes[(cx.idx / ns) as usize];
        let size = sizes[(cx.idx % ns) as usize];
        let mut r = cx.rng.clone();
        let path = PathT { root, segs: (0..nseg).map(|_| gen_seg(&mut r)).collect() };
        // body: one string child of exactly `size` bytes when size >= 2, else raw small children
        let children: Vec<Term> = match size {
            0 => vec![],
            1 => vec![Term::Zero],
            n => vec![Term::Str("q".repeat(n - 2))],
        };
        cx.eval();
        cx.obs();
        let a = build_bytes(&Term::Scope(path.clone(), children.clone()), false);
        let b = build_bytes(&Term::ScopeRaw(path.clone(), children), false);
        if a != b {
            let i = a.iter().zip(b.iter()).position(|(x, y)| x != y).unwrap_or(a.len().min(b.len()));
            cx.violation(
                format!("Scope::raw and Scope::new differ for a {}-byte body under path {} (first difference at byte {})", size, path.to_string(), i),
                obj(vec![("scope_new", hex_window(&a, i, 16).into()), ("scope_raw", hex_window(&b, i, 16).into())]),
            );
            return;
        }
        cx.rep.distinct(&(root, nseg, size));
        if size == 63 || size == 4095 {
            cx.sample(|| obj(vec![("path", path.to_string().into()), ("body_bytes", size.into()), ("image_head", hex(&a[..a.len().min(24)]).into())]));
        }
    }));
    // 2. generated child / element lists
    let n = cfg.scaled(if thorough { 2_000_000 } else { 60_000 });
    rep.merge(par_cases(cfg, "alt.lists", n, |cx| {
        let mut r = cx.rng.clone();
        let count = match r.below(12) {
            0 => 0,
            1 => 1,
            2 => 254,
            3 => 255,
            // more children than a one-byte count could hold: legal for a scope (term lists carry no
            // count), compared for Scope::new / Scope::raw only
            4 if cx.idx % 3 == 0 => *r.pick(&[256usize, 257, 300, 511, 512, 600]),
            _ => r.below(12) as usize,
        };
        let mut budget = 60i64;
        let elems: Vec<Term> = (0..count)
            .map(|_| {
                let mut b = budget.max(3);
                let t = gen_term(&mut r, 2, &mut b);
                budget -= 3;
                t
            })
            .collect();
        // occasionally an element that serialises to nothing at all
        let mut elems = elems;
        if cx.idx % 9 == 0 && elems.len() < 250 {
            let at = r.usize_below(elems.len() + 1);
            elems.insert(at, Term::Empty);
            cx.fringe = true; // nothing promises that an empty field name is accepted
            cx.rep.cov("list_with_zero_byte_element");
        }
        cx.eval();
        cx.obs();
        let path = gen_path(&mut r);
        let a = build_bytes(&Term::Scope(path.clone(), elems.clone()), false);
        let b = build_bytes(&Term::ScopeRaw(path.clone(), elems.clone()), false);
        if a != b {
            cx.violation(format!("Scope::raw and Scope::new differ for {} generated children", count), obj(vec![("children", J::Str(format!("{:?}", elems).chars().take(800).collect()))]));
            return;
        }
        if count > 255 {
            cx.rep.cov("scope_with_more_than_255_children");
            cx.rep.distinct(&(count, hash_bytes(&a)));
            return;
        }
        let p1 = build_bytes(&Term::Package(elems.clone()), false);
        let p2 = build_bytes(&Term::PackageBuilder(elems.clone()), false);
        if p1 != p2 {
            let i = p1.iter().zip(p2.iter()).position(|(x, y)| x != y).unwrap_or(p1.len().min(p2.len()));
            cx.violation(
                format!("PackageBuilder filled element by element differs from Package::new for {} elements (first difference at byte {})", count, i),
                obj(vec![("package_new", hex_window(&p1, i, 16).into()), ("package_builder", hex_window(&p2, i, 16).into())]),
            );
            return;
        }
        cx.rep.cov(&format!("elements:{}", if count >= 254 { count.to_string() } else { "<254".into() }));
        cx.rep.distinct(&(count, hash_bytes(&p1)));
        // carriers
        let s = gen_string(&mut r);
        let s1 = build_bytes(&Term::Str(s.clone()), false);
        let s2 = build_bytes(&Term::StaticStr(if r.bool() { s.clone() } else { r.pick(&STATIC_STRS).to_string() }), false);
        let s2b = build_bytes(&Term::StaticStr(s.clone()), false);
        let _ = s2;
        if s1 != s2b {
            cx.violation(format!("borrowed and owned strings of equal content {:?} emit different bytes", s), J::Null);
            return;
        }
        let v = r.u64b();
        let i1 = build_bytes(&Term::U64(v), false);
        let i2 = build_bytes(&Term::Usize(v as usize), false);
        if i1 != i2 {
            cx.violation(format!("usize and u64 of equal value {:#x} emit different bytes", v), J::Null);
        }
    }));
    rep
}
