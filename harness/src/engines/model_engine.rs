//! Reference-model monitors over operation histories: C12 (locality matrices vs a cell map),
//! C13 (generic table vs a byte vector), C17 (checksum accumulator vs a wide-integer sum).

use crate::json::{hex, hex_window, obj, J};
use crate::report::{catches, par_cases, CaseCtx, Cfg, Report, Tier};
use crate::sinks::{sum8, to_vec};
use crate::tables::ops::SdtOp;
use crate::tables::real::{apply_sdt, data_type, loc_type, mts};
use crate::tables::reference::get;
use acpi_tables::hmat::{SystemLocality, HMAT};
use acpi_tables::sdt::Sdt;
use acpi_tables::slit::SLIT;
use acpi_tables::{Aml, AmlSink, Checksum};
use std::collections::HashMap;

// ------------------------------------------------------------------------------------ C12

/// Apply a SLIT history step by step; after every assignment compare the matrix region with
/// the cell-map model (unordered pair -> last value, default 10) and check the checksum.
fn slit_history(cx: &mut CaseCtx, n: usize, hist: &[(usize, usize, u8)]) -> bool {
    let mut t = SLIT::new(*b"MATRIX", *b"SLITSLIT", 7, n as u32);
    let mut model: HashMap<(usize, usize), u8> = HashMap::new();
    cx.eval();
    for (step, &(a, b, v)) in hist.iter().enumerate() {
        if let Err(e) = catches(|| t.set_distance(a, b, v)) {
            cx.violation(format!("SLIT {}x{}: in-range pair ({}, {}) is refused: {}", n, n, a, b, e), obj(vec![("history", format!("{:?}", &hist[..=step]).into())]));
            return false;
        }
        model.insert((a.min(b), a.max(b)), v);
        let img = to_vec(&t);
        cx.obs();
        if img.len() != 44 + n * n {
            cx.violation(format!("SLIT {}x{} image has {} bytes", n, n, img.len()), J::Null);
            return false;
        }
        for i in 0..n {
            for j in 0..n {
                let want = *model.get(&(i.min(j), i.max(j))).unwrap_or(&10);
                let got = img[44 + i * n + j];
                if got != want {
                    cx.violation(
                        format!("SLIT {}x{}: cell ({}, {}) holds {} but the last value assigned to that pair is {}", n, n, i, j, got, want),
                        obj(vec![("history", format!("{:?}", &hist[..=step]).into()), ("matrix", hex(&img[44..]).chars().take(400).collect::<String>().into())]),
                    );
                    return false;
                }
            }
        }
        if sum8(&img) != 0 {
            cx.violation(
                format!("SLIT {}x{}: table sums to {} after assigning ({}, {}) = {}", n, n, sum8(&img), a, b, v),
                obj(vec![("history", format!("{:?}", &hist[..=step]).into())]),
            );
            return false;
        }
    }
    true
}

fn hmat_history(cx: &mut CaseCtx, ni: usize, nt: usize, hist: &[(usize, usize, u16)], in_table: bool) -> bool {
    let mut s = SystemLocality::new(loc_type((ni % 4) as u8), data_type((nt % 6) as u8), mts(((ni + nt) % 12) as u8), 100, ni, nt);
    let mut model: HashMap<(usize, usize), u16> = HashMap::new();
    cx.eval();
    let cell0 = 32 + 4 * ni + 4 * nt;
    // step 0 is the structure as created (no assignment yet: every cell reads "unreachable")
    for step in 0..=hist.len() {
        if step > 0 {
            let (i, j, v) = hist[step - 1];
            if let Err(e) = catches(|| s.set_entry_value(i, j, v)) {
                cx.violation(format!("HMAT {}x{} locality: in-range cell ({}, {}) is refused: {}", ni, nt, i, j, e), obj(vec![("history", format!("{:?}", &hist[..step]).into())]));
                return false;
            }
            model.insert((i, j), v);
        } else {
            cx.rep.cov("hmat_unassigned_structure_observed");
        }
        let hist_upto = &hist[..step];
        let img = to_vec(&s);
        cx.obs();
        if img.len() != cell0 + 2 * ni * nt {
            cx.violation(format!("HMAT {}x{} locality structure has {} bytes", ni, nt, img.len()), J::Null);
            return false;
        }
        for a in 0..ni {
            for b in 0..nt {
                let want = *model.get(&(a, b)).unwrap_or(&0xFFFF);
                let got = get(&img, cell0 + 2 * (a * nt + b), 2) as u16;
                if got != want {
                    cx.violation(
                        format!("HMAT {}x{} locality: row-major cell (initiator {}, target {}) holds {:#x} but the last value assigned to it is {:#x}", ni, nt, a, b, got, want),
                        obj(vec![("history", format!("{:?}", hist_upto).into()), ("cells", hex(&img[cell0..]).chars().take(400).collect::<String>().into())]),
                    );
                    return false;
                }
            }
        }
    }
    if in_table {
        let mut t = HMAT::new(*b"MATRIX", *b"HMATHMAT", 1);
        t.add_system_locality(s);
        let img = to_vec(&t);
        cx.obs();
        if sum8(&img) != 0 {
            cx.violation(format!("HMAT table with a {}x{} locality structure sums to {}", ni, nt, sum8(&img)), obj(vec![("history", format!("{:?}", hist).into())]));
            return false;
        }
        // a second structure behind it (the table's running sum has to carry on from the first)
        let mut s2 = SystemLocality::new(loc_type(1), data_type(3), mts(2), 7, 1, 2);
        s2.set_entry_value(0, 1, 0x00AB);
        t.add_system_locality(s2);
        let img2 = to_vec(&t);
        cx.obs();
        if sum8(&img2) != 0 || img2.len() != img.len() + 32 + 4 + 8 + 4 {
            cx.violation(
                format!("HMAT table with a {}x{} and a 1x2 locality structure has {} bytes summing to {}", ni, nt, img2.len(), sum8(&img2)),
                obj(vec![("history", format!("{:?}", hist).into())]),
            );
            return false;
        }
        if get(&img2, img2.len() - 2, 2) != 0x00AB || img2[..img.len()][36..] != img[36..] {
            cx.violation(format!("HMAT table: adding a second locality structure disturbs the first {}x{} one or loses its own cell", ni, nt), obj(vec![("history", format!("{:?}", hist).into())]));
            return false;
        }
    }
    true
}

pub fn run_c12(cfg: &Cfg) -> Report {
    let thorough = cfg.tier == Tier::Thorough;
    let mut rep = Report::default();
    rep.rule(
        "SLIT N=1..6 (quick: ..5) with ALL sequences of <= 3 (quick: <= 2 for N>=4) assignments over all ordered pairs and 3 values; random sequences up to 500 for N <= 64 with repeats, diagonal and mirrored pairs; \
         HMAT all shapes 1..5 x 1..5 with all sequences of <= 2 assignments over all cells and 3 values; random shapes up to 24x24 including 1xn and nx1; image compared with a cell->last-value map after every assignment, \
         checksum checked; distinct = distinct (shape, history) pairs",
    );
    // SLIT exhaustive small: enumerate by index
    // 10 is the default; 138 differs from it by exactly 128 (twice the delta vanishes mod 256)
    let vals = [0u8, 10, 138, 0xFF];
    let max_n = if thorough { 6 } else { 5 };
    for n in 1..=max_n {
        let ops = (n * n * 4) as u64;
        let depth = if thorough || n <= 3 { 3 } else { 2 };
        let total: u64 = (1..=depth).map(|d| ops.pow(d)).sum();
        let mut r = par_cases(cfg, &format!("slit.exhaustive.n{}", n), total, |cx| {
            // decode idx into a sequence of length 1..=depth
            let mut idx = cx.idx;
            let mut len = 1;
            while idx >= ops.pow(len) {
                idx -= ops.pow(len);
                len += 1;
            }
            let mut hist = Vec::new();
            for _ in 0..len {
                let o = (idx % ops) as usize;
                idx /= ops;
                let cell = o / 4;
                hist.push((cell / n, cell % n, vals[o % 4]));
            }
            if slit_history(cx, n, &hist) {
                cx.rep.distinct(&(n, hist.clone()));
                if cx.idx == total - 1 {
                    cx.sample(|| obj(vec![("slit_n", n.into()), ("history", format!("{:?}", hist).into())]));
                }
            }
        });
        r.exhaustive(&format!("C12 SLIT N={}: all assignment sequences of length <= {}", n, depth));
        rep.merge(r);
    }
    // SLIT N=0: no pairs; construction only
    rep.merge(par_cases(cfg, "slit.n0", 1, |cx| {
        let t = SLIT::new(*b"MATRIX", *b"SLITSLIT", 7, 0);
        let img = to_vec(&t);
        cx.eval();
        cx.obs();
        if img.len() != 44 || sum8(&img) != 0 {
            cx.violation("empty SLIT is malformed".into(), J::Null);
        }
    }));
    let nr = cfg.scaled(if thorough { 2_000_000 } else { 30_000 });
    rep.merge(par_cases(cfg, "slit.random", nr, |cx| {
        let mut r = cx.rng.clone();
        let n = 1 + r.usize_below(if cx.idx % 20 == 0 { 64 } else { 12 });
        let len = 1 + r.usize_below(if cx.idx % 50 == 0 { 500 } else { 40 });
        let mut hist: Vec<(usize, usize, u8)> = Vec::new();
        for _ in 0..len {
            let h = match r.below(6) {
                0 if !hist.is_empty() => {
                    let p = hist[r.usize_below(hist.len())];
                    (p.1, p.0, r.u8b()) // mirrored re-assignment
                }
                1 if !hist.is_empty() => {
                    let p = hist[r.usize_below(hist.len())];
                    (p.0, p.1, r.u8b()) // repeated cell
                }
                2 => {
                    let a = r.usize_below(n);
                    (a, a, r.u8b()) // diagonal
                }
                _ => (r.usize_below(n), r.usize_below(n), r.u8b()),
            };
            hist.push(h);
        }
        if slit_history(cx, n, &hist) {
            cx.rep.distinct(&(n, hist));
            cx.rep.cov("slit_random_history");
        }
    }));
    // HMAT exhaustive small shapes
    let hv = [0u16, 0x1234, 0xFFFF];
    let mut shapes_done = 0u64;
    for ni in 1..=5usize {
        for nt in 1..=5usize {
            let ops = (ni * nt * 3) as u64;
            let total = ops + ops * ops;
            let mut r = par_cases(cfg, &format!("hmat.exhaustive.{}x{}", ni, nt), total, |cx| {
                let mut idx = cx.idx;
                if idx == 0 {
                    // the structure nobody assigned to, alone and inside a table
                    hmat_history(cx, ni, nt, &[], true);
                }
                let len = if idx < ops {
                    1
                } else {
                    idx -= ops;
                    2
                };
                let mut hist = Vec::new();
                for _ in 0..len {
                    let o = (idx % ops) as usize;
                    idx /= ops;
                    let cell = o / 3;
                    hist.push((cell / nt, cell % nt, hv[o % 3]));
                }
                if hmat_history(cx, ni, nt, &hist, cx.idx % 16 == 0) {
                    cx.rep.distinct(&(ni, nt, hist.clone()));
                    if ni == 2 && nt == 3 && cx.idx == total - 1 {
                        cx.sample(|| obj(vec![("hmat_shape", format!("{}x{}", ni, nt).into()), ("history", format!("{:?}", hist).into())]));
                    }
                }
            });
            shapes_done += 1;
            r.cov_n("hmat_shapes_exhaustive", 1);
            rep.merge(r);
        }
    }
    let _ = shapes_done;
    rep.exhaustive("C12 HMAT: all shapes 1..5 x 1..5 with all assignment sequences of length <= 2 over 3 values");
    let nh = cfg.scaled(if thorough { 2_000_000 } else { 30_000 });
    rep.merge(par_cases(cfg, "hmat.random", nh, |cx| {
        let mut r = cx.rng.clone();
        let (ni, nt) = match r.below(6) {
            0 => (1, 1 + r.usize_below(24)),
            1 => (1 + r.usize_below(24), 1),
            _ => (1 + r.usize_below(24), 1 + r.usize_below(24)),
        };
        let len = r.usize_below(61);
        let hist: Vec<(usize, usize, u16)> = (0..len).map(|_| (r.usize_below(ni), r.usize_below(nt), r.u16b())).collect();
        if hmat_history(cx, ni, nt, &hist, true) {
            cx.rep.distinct(&(ni, nt, hist));
            cx.rep.cov(if ni == 1 { "hmat_shape:single_row" } else if nt == 1 { "hmat_shape:single_column" } else if ni == nt { "hmat_shape:square" } else { "hmat_shape:rectangular" });
        }
    }));
    rep
}

// ------------------------------------------------------------------------------------ C13

/// The byte-vector model with header rules.
#[derive(Clone)]
struct Model(Vec<u8>);
impl Model {
    fn fix(&mut self) {
        self.0[9] = 0;
        let s = sum8(&self.0);
        self.0[9] = 0u8.wrapping_sub(s);
    }
    fn append(&mut self, b: &[u8]) {
        self.0.extend_from_slice(b);
        let l = self.0.len() as u32;
        self.0[4..8].copy_from_slice(&l.to_le_bytes());
        self.fix();
    }
    /// returns false when the write is out of range (must be refused, table unchanged)
    fn write(&mut self, off: usize, b: &[u8]) -> bool {
        match off.checked_add(b.len()) {
            Some(e) if e <= self.0.len() => {
                self.0[off..e].copy_from_slice(b);
                self.fix();
                true
            }
            _ => false,
        }
    }
    fn apply(&mut self, op: &SdtOp) -> bool {
        match op {
            SdtOp::AppendU8(v) | SdtOp::SinkByte(v) => self.append(&[*v]),
            SdtOp::AppendU16(v) | SdtOp::SinkWord(v) => self.append(&v.to_le_bytes()),
            SdtOp::AppendU32(v) | SdtOp::SinkDword(v) => self.append(&v.to_le_bytes()),
            SdtOp::AppendU64(v) | SdtOp::SinkQword(v) => self.append(&v.to_le_bytes()),
            SdtOp::AppendArr3(v) => self.append(v),
            SdtOp::AppendSlice(v) => self.append(v),
            // the sink interface delivers bytes; pushing no bytes is not an append
            SdtOp::SinkVec(v) => {
                if !v.is_empty() {
                    self.append(v)
                }
            }
            SdtOp::WriteU8(o, v) => return self.write(*o, &[*v]),
            SdtOp::WriteU16(o, v) => return self.write(*o, &v.to_le_bytes()),
            SdtOp::WriteU32(o, v) => return self.write(*o, &v.to_le_bytes()),
            SdtOp::WriteU64(o, v) => return self.write(*o, &v.to_le_bytes()),
            SdtOp::WriteArr3(o, v) => return self.write(*o, v),
            SdtOp::WriteBytes(o, v) => return self.write(*o, v),
            SdtOp::UpdateChecksum => self.fix(),
        }
        true
    }
}

fn sdt_history(cx: &mut CaseCtx, init_len: u32, ops: &[SdtOp]) -> bool {
    let sig = *b"GENR";
    let mut t = Sdt::new(sig, init_len, 3, *b"OEMID_", *b"OEMTABLE", 0xA1B2_C3D4);
    let mut m = Model({
        let mut v = vec![0u8; init_len as usize];
        v[0..4].copy_from_slice(&sig);
        v[4..8].copy_from_slice(&init_len.to_le_bytes());
        v[8] = 3;
        v[10..16].copy_from_slice(b"OEMID_");
        v[16..24].copy_from_slice(b"OEMTABLE");
        v[24..28].copy_from_slice(&0xA1B2_C3D4u32.to_le_bytes());
        v[28..32].copy_from_slice(b"RVAT");
        v[32..36].copy_from_slice(&[0, 0, 0, 1]);
        v
    });
    m.fix();
    cx.eval();
    let compare = |cx: &mut CaseCtx, t: &Sdt, m: &Model, step: usize, what: &str| -> bool {
        cx.obs();
        let s = t.as_slice();
        let fail = |cx: &mut CaseCtx, msg: String, at: usize| {
            cx.violation(
                format!("generic table (initial length {}) {}: {}", init_len, what, msg),
                obj(vec![
                    ("history", J::Str(format!("{:?}", &ops[..step]).chars().take(1500).collect())),
                    ("table", hex_window(s, at, 24).into()),
                    ("byte_vector_model", hex_window(&m.0, at, 24).into()),
                ]),
            );
            false
        };
        if s.len() != m.0.len() || t.len() != m.0.len() {
            return fail(cx, format!("holds {} bytes (len() = {}), the byte-vector model {}", s.len(), t.len(), m.0.len()), 4);
        }
        if let Some(i) = s.iter().zip(m.0.iter()).position(|(a, b)| a != b) {
            return fail(cx, format!("byte {} is {:#04x}, the byte-vector model has {:#04x}", i, s[i], m.0[i]), i);
        }
        if sum8(s) != 0 {
            return fail(cx, format!("sums to {}", sum8(s)), 9);
        }
        let ser = to_vec(t);
        if ser != s {
            return fail(cx, "serialised stream differs from as_slice()".into(), 0);
        }
        if t.is_empty() {
            return fail(cx, "is_empty() on a table that always has a header".into(), 0);
        }
        true
    };
    if !compare(cx, &t, &m, 0, "after creation") {
        return false;
    }
    for (i, op) in ops.iter().enumerate() {
        let before = t.as_slice().to_vec();
        let mut m2 = m.clone();
        let in_range = m2.apply(op);
        let res = catches(|| apply_sdt(&mut t, op));
        match (in_range, res) {
            (true, Ok(())) => {
                m = m2;
                if !compare(cx, &t, &m, i + 1, &format!("after op #{} {:?}", i, short_op(op))) {
                    return false;
                }
            }
            (true, Err(e)) => {
                cx.violation(format!("generic table: in-range operation {:?} is refused: {}", short_op(op), e), obj(vec![("history", J::Str(format!("{:?}", &ops[..=i]).chars().take(1500).collect()))]));
                return false;
            }
            (false, Ok(())) => {
                cx.violation(
                    format!("generic table of {} bytes: out-of-range write {:?} returns instead of being refused", before.len(), short_op(op)),
                    obj(vec![("history", J::Str(format!("{:?}", &ops[..=i]).chars().take(1500).collect()))]),
                );
                return false;
            }
            (false, Err(_)) => {
                cx.obs();
                cx.rep.cov("refused_write_observed");
                if t.as_slice() != &before[..] {
                    cx.violation(
                        format!("generic table: refused write {:?} changed the table", short_op(op)),
                        obj(vec![("before", hex(&before[..before.len().min(64)]).into()), ("after", hex(&t.as_slice()[..t.as_slice().len().min(64)]).into())]),
                    );
                    return false;
                }
            }
        }
    }
    true
}

fn short_op(op: &SdtOp) -> String {
    format!("{:?}", op).chars().take(120).collect()
}

pub fn run_c13(cfg: &Cfg) -> Report {
    let thorough = cfg.tier == Tier::Thorough;
    let mut rep = Report::default();
    rep.rule(
        "generic table vs Vec<u8> model with header rules: bounded-exhaustive — initial lengths {36,37,40,44}, ALL sequences of <= 2 (thorough: 3) operations over a reduced alphabet \
         (5 value widths x offsets {0,3,4,7,8,9,10,35,last valid,last valid+1,len} + appends incl. empty slice + sink pushes); random histories up to 300 ops with initial lengths up to 64 KiB; \
         contents, len(), serialised stream and byte sum compared after every op; out-of-range writes must panic and leave the table unchanged",
    );
    // reduced alphabet, parameterised by the current length (offsets are relative markers)
    #[derive(Clone, Copy)]
    enum Off {
        Abs(usize),
        LastValid,
        LastValidPlus1,
        Len,
    }
    let offs = [Off::Abs(0), Off::Abs(3), Off::Abs(4), Off::Abs(7), Off::Abs(8), Off::Abs(9), Off::Abs(10), Off::Abs(35), Off::LastValid, Off::LastValidPlus1, Off::Len];
    let n_alpha: u64 = 5 * offs.len() as u64 + 12 + 5 + 4;
    let mk = move |code: u64, cur_len: usize| -> SdtOp {
        if code < 5 * offs.len() as u64 {
            let w = [1usize, 2, 4, 8, 3][(code / offs.len() as u64) as usize];
            let o = match offs[(code % offs.len() as u64) as usize] {
                Off::Abs(a) => a,
                Off::LastValid => cur_len.saturating_sub(w),
                Off::LastValidPlus1 => cur_len.saturating_sub(w) + 1,
                Off::Len => cur_len,
            };
            match w {
                1 => SdtOp::WriteU8(o, 0xA7),
                2 => SdtOp::WriteU16(o, 0xB1C2),
                4 => SdtOp::WriteU32(o, 0xD1E2_F3A4),
                8 => SdtOp::WriteU64(o, 0x0102_0304_0506_0708),
                _ => SdtOp::WriteBytes(o, vec![0x11, 0x22, 0x33]),
            }
        } else {
            match code - 5 * offs.len() as u64 {
                0 => SdtOp::AppendU8(0xEE),
                1 => SdtOp::AppendU16(0xBEEF),
                2 => SdtOp::AppendU32(0xDEAD_BEEF),
                3 => SdtOp::AppendU64(0xFEED_FACE_CAFE_F00D),
                4 => SdtOp::AppendSlice(vec![]),
                5 => SdtOp::AppendSlice(vec![1, 2, 3, 4, 5]),
                6 => SdtOp::SinkByte(0x5A),
                7 => SdtOp::SinkWord(0x1234),
                8 => SdtOp::SinkDword(0x8765_4321),
                9 => SdtOp::SinkQword(u64::MAX),
                10 => SdtOp::SinkVec(vec![9, 8, 7]),
                11 => SdtOp::WriteBytes(cur_len, vec![]), // empty write exactly at the end: in range
                // the caller writes into the Length field the value a following append will make true
                k @ 12..=16 => SdtOp::WriteU32(4, (cur_len + [1usize, 2, 4, 8, 5][(k - 12) as usize]) as u32),
                // slice writes that start inside the header (before / at the checksum byte) and run
                // one byte past the end: refused, and the table must be left untouched
                k => {
                    let start = [0usize, 5, 9, 10][(k - 17) as usize];
                    SdtOp::WriteBytes(start, vec![0xD7; cur_len - start + 1])
                }
            }
        }
    };
    let depth: u32 = if thorough { 3 } else { 2 };
    let per_len: u64 = (1..=depth).map(|d| n_alpha.pow(d)).sum();
    let inits = [36u32, 37, 40, 44];
    rep.exhaustive(&format!("C13: initial lengths {{36,37,40,44}} x all sequences of <= {} operations over a {}-operation alphabet", depth, n_alpha));
    rep.merge(par_cases(cfg, "sdt.exhaustive", per_len * 4, |cx| {
        let init = inits[(cx.idx / per_len) as usize];
        let mut idx = cx.idx % per_len;
        let mut len = 1u32;
        while idx >= n_alpha.pow(len) {
            idx -= n_alpha.pow(len);
            len += 1;
        }
        let mut ops = Vec::new();
        let mut cur = init as usize;
        for _ in 0..len {
            let code = idx % n_alpha;
            idx /= n_alpha;
            let op = mk(code, cur);
            // track the model length for the relative offsets of later ops
            cur += match &op {
                SdtOp::AppendU8(_) | SdtOp::SinkByte(_) => 1,
                SdtOp::AppendU16(_) | SdtOp::SinkWord(_) => 2,
                SdtOp::AppendU32(_) | SdtOp::SinkDword(_) => 4,
                SdtOp::AppendU64(_) | SdtOp::SinkQword(_) => 8,
                SdtOp::AppendSlice(v) | SdtOp::SinkVec(v) => v.len(),
                _ => 0,
            };
            ops.push(op);
        }
        if sdt_history(cx, init, &ops) {
            cx.rep.distinct(&(init, cx.idx % per_len));
            if cx.idx == per_len - 1 {
                cx.sample(|| obj(vec![("initial_length", (init as u64).into()), ("ops", format!("{:?}", ops).into())]));
            }
        }
    }));
    let nr = cfg.scaled(if thorough { 2_000_000 } else { 60_000 });
    rep.merge(par_cases(cfg, "sdt.random", nr, |cx| {
        let mut r = cx.rng.clone();
        let init: u32 = match r.below(8) {
            0 => 36,
            1 => 255,
            2 => 256,
            3 => 65535,
            4 => 65536,
            _ => 36 + r.below(if cx.idx % 40 == 0 { 65536 } else { 200 }) as u32,
        };
        let init = if cx.cfg.mini { 36 + init % 200 } else { init };
        let n = 1 + r.usize_below(if cx.cfg.mini { 12 } else if cx.idx % 25 == 0 { 300 } else { 30 });
        let mut cur = init as usize;
        let mut ops = Vec::new();
        for _ in 0..n {
            let k = r.below(20);
            let op = match k {
                0 => SdtOp::AppendU8(r.u8b()),
                1 => SdtOp::AppendU16(r.u16b()),
                2 => SdtOp::AppendU32(r.u32b()),
                3 => SdtOp::AppendU64(r.u64b()),
                4 => {
                    let l = if r.chance(1, 8) { 0 } else { r.usize_below(40) };
                    if r.chance(1, 40) && !cx.cfg.mini {
                        // a large slice of high-valued bytes (word-at-a-time summing must not lose carries)
                        let n = 2048 + r.usize_below(9000);
                        let fill = *r.pick(&[0xFFu8, 0xFE, 0x80, 0xF0]);
                        SdtOp::AppendSlice(if r.bool() { vec![fill; n] } else { r.byte_vec(n).into_iter().map(|b| b | 0x80).collect() })
                    } else {
                        SdtOp::AppendSlice(r.byte_vec(l))
                    }
                }
                5 => SdtOp::AppendArr3(r.bytes()),
                6 => SdtOp::SinkByte(r.u8b()),
                7 => SdtOp::SinkWord(r.u16b()),
                8 => SdtOp::SinkDword(r.u32b()),
                9 => SdtOp::SinkQword(r.u64b()),
                10 => {
                    let l = r.usize_below(12);
                    SdtOp::SinkVec(r.byte_vec(l))
                }
                11 => SdtOp::UpdateChecksum,
                _ => {
                    let w = match k {
                        12 => 1,
                        13 => 2,
                        14 => 4,
                        15 => 8,
                        16 => 3,
                        _ => r.usize_below(16),
                    };
                    // offsets: header, checksum byte, length field, last valid, one past, far beyond
                    let ro = r.usize_below(cur + 4);
                    let off = *r.pick(&[0usize, 2, 4, 6, 8, 9, 10, 35, cur.saturating_sub(w), cur.saturating_sub(w) + 1, cur, ro, usize::MAX - 1, usize::MAX]);
                    if k == 17 && r.chance(1, 4) {
                        // a long slice starting in the header, ending around the end of the table
                        let start = r.usize_below(12);
                        let over = r.usize_below(3);
                        let n = (cur + over).saturating_sub(start + 1) + r.usize_below(2);
                        ops.push(SdtOp::WriteBytes(start, r.byte_vec(n)));
                        continue;
                    }
                    if k == 14 && r.chance(1, 3) {
                        // Length field pre-set to what one of the next appends would make it
                        let ahead = *r.pick(&[1usize, 2, 3, 4, 8]);
                        ops.push(SdtOp::WriteU32(4, (cur + ahead) as u32));
                        continue;
                    }
                    match k {
                        12 => SdtOp::WriteU8(off, r.u8b()),
                        13 => SdtOp::WriteU16(off, r.u16b()),
                        14 => SdtOp::WriteU32(off, r.u32b()),
                        15 => SdtOp::WriteU64(off, r.u64b()),
                        16 => SdtOp::WriteArr3(off, r.bytes()),
                        _ => SdtOp::WriteBytes(off, r.byte_vec(w)),
                    }
                }
            };
            cur += match &op {
                SdtOp::AppendU8(_) | SdtOp::SinkByte(_) => 1,
                SdtOp::AppendU16(_) | SdtOp::SinkWord(_) => 2,
                SdtOp::AppendU32(_) | SdtOp::SinkDword(_) => 4,
                SdtOp::AppendU64(_) | SdtOp::SinkQword(_) => 8,
                SdtOp::AppendArr3(_) => 3,
                SdtOp::AppendSlice(v) | SdtOp::SinkVec(v) => v.len(),
                _ => 0,
            };
            ops.push(op);
        }
        if sdt_history(cx, init, &ops) {
            cx.rep.distinct(&(init, format!("{:?}", ops)));
        }
        if cx.idx % 32 == 0 {
            // negative control: the comparison must notice a table that differs from the model in one byte
            let t = Sdt::new(*b"NEGC", 40, 1, [1; 6], [2; 8], 3);
            let mut m = Model(t.as_slice().to_vec());
            let k = r.usize_below(40);
            m.0[k] ^= 1 << r.below(8);
            cx.rep.neg_controls += 1;
            if t.as_slice() == &m.0[..] {
                cx.rep.inconclusive("negative control: corrupted byte-vector model equals the table".to_string());
            }
        }
    }));
    // creation with a declared length below the header size must be refused
    rep.merge(par_cases(cfg, "sdt.short", 36, |cx| {
        let l = cx.idx as u32;
        cx.eval();
        cx.obs();
        if catches(|| Sdt::new(*b"SHRT", l, 1, [0; 6], [0; 8], 0)).is_ok() {
            cx.violation(format!("Sdt::new with declared length {} (< 36) returns", l), J::Null);
        }
    }));
    rep
}

// ------------------------------------------------------------------------------------ C17

pub fn run_c17(cfg: &Cfg) -> Report {
    let thorough = cfg.tier == Tier::Thorough;
    let mut rep = Report::default();
    rep.rule(
        "checksum accumulator: ALL 256 states x 256 byte values x {add, sub, append[b], delete[b], sink byte} with inverse pairs; random histories of slice/byte/sink operations \
         (up to 10^4 ops, slices up to 4 KiB) against an i128 running sum; distinct = (state, byte) pairs and distinct histories",
    );
    rep.exhaustive("C17: 256 accumulator states x 256 byte values x 5 single-byte entry points, with inverses");
    rep.merge(par_cases(cfg, "cksum.exhaustive", 256, |cx| {
        let st = cx.idx as u8;
        for b in 0..=255u8 {
            for k in 0..5 {
                let mut c = Checksum::default();
                c.add(st);
                if c.raw_value() != st {
                    cx.violation(format!("fresh accumulator after add({}) has raw value {}", st, c.raw_value()), J::Null);
                    return;
                }
                match k {
                    0 => c.add(b),
                    1 => c.sub(b),
                    2 => c.append(&[b]),
                    3 => c.delete(&[b]),
                    _ => AmlSink::byte(&mut c, b),
                }
                let want = if k == 1 || k == 3 { st.wrapping_sub(b) } else { st.wrapping_add(b) };
                cx.rep.observations += 1;
                if c.raw_value() != want {
                    cx.violation(format!("state {} op #{} byte {}: raw value {} but the mod-256 sum is {}", st, k, b, c.raw_value(), want), J::Null);
                    return;
                }
                if c.raw_value().wrapping_add(c.value()) != 0 {
                    cx.violation(format!("state {}: raw value {} + checksum {} is not 0 mod 256", want, c.raw_value(), c.value()), J::Null);
                    return;
                }
                // inverse restores the previous state exactly
                match k {
                    0 | 4 => c.sub(b),
                    1 => c.add(b),
                    2 => c.delete(&[b]),
                    _ => c.append(&[b]),
                }
                if c.raw_value() != st {
                    cx.violation(format!("state {}: applying op #{} with byte {} and then its inverse gives {}", st, k, b, c.raw_value()), J::Null);
                    return;
                }
            }
            cx.rep.distinct(&(st, b));
        }
        cx.rep.evaluations += 256 * 5;
        if st == 200 {
            let mut c = Checksum::default();
            c.add(200);
            c.add(100);
            cx.sample(|| obj(vec![("state", 200u64.into()), ("op", "add".into()), ("byte", 100u64.into()), ("raw_value_observed", (c.raw_value() as u64).into()), ("checksum_observed", (c.value() as u64).into())]));
        }
    }));
    let nr = cfg.scaled(if thorough { 1_000_000 } else { 20_000 });
    rep.merge(par_cases(cfg, "cksum.random", nr, |cx| {
        let mut r = cx.rng.clone();
        let mut c = Checksum::default();
        let mut model: i128 = 0;
        let n = 1 + r.usize_below(if cx.idx % 50 == 0 { 10_000 } else { 200 });
        cx.eval();
        let mut log: Vec<String> = Vec::new();
        for _ in 0..n {
            let k = r.below(10);
            let before = c.raw_value();
            match k {
                0 => {
                    let b = r.u8b();
                    c.add(b);
                    model += b as i128;
                    log.push(format!("add({})", b));
                }
                1 => {
                    let b = r.u8b();
                    c.sub(b);
                    model -= b as i128;
                    log.push(format!("sub({})", b));
                }
                2 | 3 => {
                    let l = if r.chance(1, 10) { r.usize_below(4096) } else { r.usize_below(24) };
                    let v = r.byte_vec(l);
                    let s: i128 = v.iter().map(|x| *x as i128).sum();
                    if k == 2 {
                        c.append(&v);
                        model += s;
                    } else {
                        c.delete(&v);
                        model -= s;
                    }
                    log.push(format!("{}([{} bytes])", if k == 2 { "append" } else { "delete" }, l));
                    if r.chance(1, 4) {
                        // inverse pair restores the previous state
                        if k == 2 {
                            c.delete(&v);
                            model -= s;
                        } else {
                            c.append(&v);
                            model += s;
                        }
                        if c.raw_value() != before {
                            cx.violation(format!("append/delete of the same {} bytes does not restore raw value {} (got {})", l, before, c.raw_value()), J::Null);
                            return;
                        }
                    }
                }
                4 => {
                    let b = r.u8b();
                    AmlSink::byte(&mut c, b);
                    model += b as i128;
                    log.push(format!("sink.byte({})", b));
                }
                5 => {
                    let w = r.u16b();
                    AmlSink::word(&mut c, w);
                    model += w.to_le_bytes().iter().map(|x| *x as i128).sum::<i128>();
                    log.push(format!("sink.word({:#x})", w));
                }
                6 => {
                    let w = r.u32b();
                    AmlSink::dword(&mut c, w);
                    model += w.to_le_bytes().iter().map(|x| *x as i128).sum::<i128>();
                    log.push(format!("sink.dword({:#x})", w));
                }
                7 => {
                    let w = r.u64b();
                    AmlSink::qword(&mut c, w);
                    model += w.to_le_bytes().iter().map(|x| *x as i128).sum::<i128>();
                    log.push(format!("sink.qword({:#x})", w));
                }
                _ => {
                    let l = r.usize_below(64);
                    let v = r.byte_vec(l);
                    AmlSink::vec(&mut c, &v);
                    model += v.iter().map(|x| *x as i128).sum::<i128>();
                    log.push(format!("sink.vec([{} bytes])", l));
                }
            }
            cx.obs();
            let want = model.rem_euclid(256) as u8;
            if c.raw_value() != want {
                cx.violation(
                    format!("after {} operations the raw value is {} but (sum added - sum removed) mod 256 is {}", log.len(), c.raw_value(), want),
                    obj(vec![("last_ops", format!("{:?}", &log[log.len().saturating_sub(6)..]).into())]),
                );
                return;
            }
            if c.raw_value().wrapping_add(c.value()) != 0 {
                cx.violation(format!("raw value {} + checksum {} is not 0 mod 256", c.raw_value(), c.value()), J::Null);
                return;
            }
        }
        cx.rep.distinct(&(n, model));
        if cx.idx % 101 == 7 {
            cx.sample(|| obj(vec![("history_length", n.into()), ("last_ops", format!("{:?}", &log[log.len().saturating_sub(5)..]).into()), ("final_raw_value", (c.raw_value() as u64).into())]));
        }
    }));
    // structured large slices: constant fills, zero blocks, one hot column per 8-byte word, with a
    // non-zero accumulator before; append, delete and the sink's slice entry point, plus inverses
    let fills = [0x00u8, 0x01, 0x7F, 0x80, 0xFE, 0xFF];
    let lens = [1023usize, 1024, 1025, 1032, 2047, 2048, 2049, 2056, 2064, 4096, 8192, 65_536, 70_001];
    rep.merge(par_cases(cfg, "cksum.structured", (fills.len() * lens.len() * 12) as u64, |cx| {
        let mut r = cx.rng.clone();
        let fill = fills[(cx.idx as usize) % fills.len()];
        let len = lens[(cx.idx as usize / fills.len()) % lens.len()];
        let variant = cx.idx as usize / (fills.len() * lens.len()); // 0..12
        let mut data = vec![fill; len];
        match variant % 4 {
            1 => {
                // one column of each 8-byte word differs from the fill
                let col = r.usize_below(8);
                let other = *r.pick(&[0x00u8, 0xFF, 0x80]);
                for (i, b) in data.iter_mut().enumerate() {
                    if i % 8 == col {
                        *b = other;
                    }
                }
            }
            2 => {
                for b in data.iter_mut().step_by(2) {
                    *b = r.u8b() | 0x80;
                }
            }
            3 => data = r.byte_vec(len).into_iter().map(|b| b | 0xC0).collect(),
            _ => {}
        }
        let rs = r.u8b();
        let start = *r.pick(&[0u8, 1, 0x7F, 0x80, 0xFF, rs]);
        let want_sum: i128 = data.iter().map(|b| *b as i128).sum();
        cx.eval();
        let mut c = Checksum::default();
        c.add(start);
        let which = variant / 4; // 0 append, 1 delete, 2 sink vec
        match which {
            0 => c.append(&data),
            1 => c.delete(&data),
            _ => AmlSink::vec(&mut c, &data),
        }
        let model = if which == 1 { start as i128 - want_sum } else { start as i128 + want_sum };
        cx.obs();
        if c.raw_value() != model.rem_euclid(256) as u8 {
            cx.violation(
                format!(
                    "state {} then {} of a {}-byte slice (fill {:#04x}, pattern {}): raw value {} but the mod-256 sum is {}",
                    start,
                    ["append", "delete", "sink.vec"][which],
                    len,
                    fill,
                    variant % 4,
                    c.raw_value(),
                    model.rem_euclid(256)
                ),
                J::Null,
            );
            return;
        }
        // exact inverse
        match which {
            1 => c.append(&data),
            _ => c.delete(&data),
        }
        cx.obs();
        if c.raw_value() != start {
            cx.violation(format!("{} of a {}-byte slice followed by its inverse does not restore state {} (got {})", ["append", "delete", "sink.vec"][which], len, start, c.raw_value()), J::Null);
            return;
        }
        cx.rep.distinct(&(fill, len, variant));
        cx.rep.cov("structured_large_slice");
    }));
    let _ = (get as fn(&[u8], usize, usize) -> u64, <Checksum as Default>::default);
    let _: Option<&dyn Aml> = None;
    rep
}
