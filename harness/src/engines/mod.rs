pub mod tables_engine;

use crate::json::J;
use crate::report::{Cfg, Report};

/// Run the engines that decide `cfg.prop`.
pub fn dispatch(cfg: &Cfg, _child: bool) -> (Report, Vec<(&'static str, J)>) {
    let extra = Vec::new();
    let rep = match cfg.prop.as_str() {
        "C01" | "C02" | "C03" | "C04" | "C05" | "C14" => tables_engine::run(cfg),
        p => {
            let mut r = Report::default();
            r.inconclusive(format!("no engine for property {}", p));
            r
        }
    };
    (rep, extra)
}
