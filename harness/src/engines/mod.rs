pub mod aml_engine;
pub mod model_engine;
pub mod options_engine;
pub mod refusal_engine;
pub mod scalar_engine;
pub mod tables_engine;

use crate::json::J;
use crate::report::{Cfg, Report};

/// Run the engines that decide `cfg.prop`.
pub fn dispatch(cfg: &Cfg, child: bool) -> (Report, Vec<(&'static str, J)>) {
    let mut extra = Vec::new();
    // oracle self-test against crate-independent vectors: a wrong oracle is inconclusive
    match crate::amlref::vectors::selftest() {
        Ok(n) => extra.push(("oracle_selftest_vectors", J::Int(n as i128))),
        Err(e) => {
            let mut r = Report::default();
            r.inconclusive(format!("oracle self-test failed: {}", e));
            return (r, extra);
        }
    }
    let rep = match cfg.prop.as_str() {
        "C01" | "C02" | "C03" | "C04" | "C05" => tables_engine::run(cfg),
        "C14" => {
            let mut r = tables_engine::run(cfg);
            r.merge(aml_engine::run_c14_aml(cfg));
            r
        }
        "C06" => aml_engine::run_c06(cfg),
        "C15" => aml_engine::run_c15(cfg),
        "C11" => options_engine::run(cfg),
        "C12" => model_engine::run_c12(cfg),
        "C13" => model_engine::run_c13(cfg),
        "C17" => model_engine::run_c17(cfg),
        "C18" => {
            let mut r = refusal_engine::run_sites(cfg);
            if child && refusal_engine::tier_huge(cfg) {
                r.merge(refusal_engine::run_huge(cfg));
            }
            r
        }
        "C07" => scalar_engine::run_c07(cfg),
        "C08" => scalar_engine::run_c08(cfg),
        "C09" => scalar_engine::run_c09(cfg),
        "C10" => scalar_engine::run_c10(cfg),
        "C16" => scalar_engine::run_c16(cfg),
        p => {
            let mut r = Report::default();
            r.inconclusive(format!("no engine for property {}", p));
            r
        }
    };
    let mut rep = rep;
    if !child && cfg.replay.is_none() {
        if let Ok(bin) = std::env::var("VERIF_CHECKED_BIN") {
            // C18 runs everything again under the overflow-checked profile; the thorough tier of the
            // other properties repeats a reduced workload there (an in-domain arithmetic overflow
            // would be a panic only in that profile).
            let scale = if cfg.prop == "C18" { 100 } else { 12 };
            run_child(cfg, &bin, scale, &mut rep, &mut extra);
        }
    }
    if !child && cfg.replay.is_none() && (cfg.prop == "C13" || cfg.prop == "C14" || cfg.prop == "C06") {
        if let Ok(dir) = std::env::var("VERIF_MIRI_DIR") {
            run_miri(cfg, &dir, &mut rep, &mut extra);
        }
    }
    (rep, extra)
}

/// Supplementary executor: the same binary with a miniature workload under Miri, to show that the
/// bytes the monitors judge are not produced through undefined behaviour (zerocopy `as_bytes()` on
/// packed structs, the harness's own arena). An oracle failure under Miri is a violation like any
/// other; a Miri diagnostic (or any abnormal end) makes this stage inconclusive, never a violation.
fn run_miri(cfg: &Cfg, harness_dir: &str, rep: &mut Report, extra: &mut Vec<(&'static str, J)>) {
    let t0 = std::time::Instant::now();
    // generous wall-clock watchdog (its firing is inconclusive, not a verdict)
    let out = std::process::Command::new("timeout")
        .current_dir(harness_dir)
        .args(["1500", "cargo", "+nightly", "miri", "run", "--offline", "--bin", "verif", "--"])
        .arg(&cfg.prop)
        .args(["--child", "--mini", "--tier", "quick", "--seed"])
        .arg(cfg.seed.to_string())
        .env("MIRIFLAGS", "-Zmiri-disable-isolation")
        .env("VERIF_THREADS", "1")
        .env("CARGO_TARGET_DIR", format!("{}/target/miri", harness_dir))
        .env_remove("VERIF_CHECKED_BIN")
        .env_remove("VERIF_MIRI_DIR")
        .output();
    match out {
        Err(e) => rep.inconclusive(format!("cannot start the Miri stage: {}", e)),
        Ok(o) => {
            let text = String::from_utf8_lossy(&o.stdout).to_string();
            let err = String::from_utf8_lossy(&o.stderr).to_string();
            let mut ev = None;
            for l in text.lines() {
                if let Some(j) = l.strip_prefix("CHILD-EVIDENCE ") {
                    ev = crate::json::parse(j).ok();
                } else if l.starts_with("VIOLATION") || l.starts_with("  ") {
                    println!("{}", l);
                }
            }
            let ub = err.contains("Undefined Behavior") || err.contains("error: unsupported operation");
            match (o.status.code(), ub) {
                (Some(0), false) => {}
                (Some(1), false) => {
                    let n = ev.as_ref().and_then(|e| e.get("violations")).and_then(|v| v.as_i128()).unwrap_or(1).max(1);
                    rep.violation_count += n as u64;
                    rep.cov_n("violations_reported_by_miri_stage", n as u64);
                }
                (c, _) => {
                    let tail: String = err.lines().rev().take(12).collect::<Vec<_>>().into_iter().rev().collect::<Vec<_>>().join(" | ");
                    rep.inconclusive(format!("Miri stage ended with status {:?} (diagnostic: {}); not a verdict: {}", c, ub, tail.chars().take(600).collect::<String>()));
                }
            }
            let pick = |k: &str| ev.as_ref().and_then(|e| e.get("coverage")).and_then(|c| c.get(k)).cloned().unwrap_or(J::Null);
            extra.push((
                "miri_stage",
                crate::json::obj(vec![
                    ("evaluations", pick("evaluations")),
                    ("observation_points", pick("observation_points")),
                    ("undefined_behaviour_reported", J::Bool(ub)),
                    ("wall_s", J::Num(t0.elapsed().as_secs_f64())),
                ]),
            ));
        }
    }
}

fn run_child(cfg: &Cfg, bin: &str, scale: u64, rep: &mut Report, extra: &mut Vec<(&'static str, J)>) {
    let out = std::process::Command::new(bin)
        .arg(&cfg.prop)
        .arg("--child")
        .arg("--tier")
        .arg(cfg.tier.name())
        .arg("--seed")
        .arg(cfg.seed.to_string())
        .arg("--scale")
        .arg(scale.to_string())
        .output();
    match out {
        Err(e) => rep.inconclusive(format!("cannot run the checked-profile binary {}: {}", bin, e)),
        Ok(o) => {
            let text = String::from_utf8_lossy(&o.stdout).to_string();
            let mut child_ev = None;
            for l in text.lines() {
                if let Some(j) = l.strip_prefix("CHILD-EVIDENCE ") {
                    child_ev = crate::json::parse(j).ok();
                } else if l.starts_with("VIOLATION") || l.starts_with("KNOWN-FINDING") || l.starts_with("  ") {
                    println!("{}", l);
                }
            }
            match o.status.code() {
                Some(0) => {}
                Some(1) => {
                    let n = child_ev.as_ref().and_then(|e| e.get("violations")).and_then(|v| v.as_i128()).unwrap_or(1).max(1);
                    rep.violation_count += n as u64;
                    rep.cov_n("violations_reported_by_checked_profile_child", n as u64);
                }
                Some(2) => rep.inconclusive("checked-profile child run was inconclusive".to_string()),
                c => rep.inconclusive(format!("checked-profile child ended abnormally (status {:?}); not a verdict", c)),
            }
            if let Some(ev) = child_ev {
                if let Some(cov) = ev.get("coverage") {
                    let pick = |k: &str| cov.get(k).cloned().unwrap_or(J::Null);
                    extra.push((
                        "checked_profile",
                        crate::json::obj(vec![
                            ("evaluations", pick("evaluations")),
                            ("observation_points", pick("observation_points")),
                            ("distinct_nontrivial", pick("distinct_nontrivial")),
                            ("observed", pick("observed")),
                            ("violations", ev.get("violations").cloned().unwrap_or(J::Null)),
                            ("scale_pct", J::Int(scale as i128)),
                        ]),
                    ));
                }
            } else {
                rep.inconclusive("checked-profile child produced no evidence".to_string());
            }
        }
    }
}
