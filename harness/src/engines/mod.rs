pub mod aml_engine;
pub mod tables_engine;

use crate::json::J;
use crate::report::{Cfg, Report};

/// Run the engines that decide `cfg.prop`.
pub fn dispatch(cfg: &Cfg, _child: bool) -> (Report, Vec<(&'static str, J)>) {
    let mut extra = Vec::new();
    // oracle self-test against crate-independent vectors: a wrong oracle is inconclusive
    match crate::amlref::vectors::selftest() {
        Ok(n) => extra.push(("oracle_selftest_vectors", J::Int(n as i128))),
        Err(e) => {
            let mut r = Report::default();
            r.inconclusive(format!("oracle self-test failed: {}", e));
            return (r, extra);
        }
    }
    let rep = match cfg.prop.as_str() {
        "C01" | "C02" | "C03" | "C04" | "C05" => tables_engine::run(cfg),
        "C14" => {
            let mut r = tables_engine::run(cfg);
            r.merge(aml_engine::run_c14_aml(cfg));
            r
        }
        "C06" => aml_engine::run_c06(cfg),
        "C15" => aml_engine::run_c15(cfg),
        p => {
            let mut r = Report::default();
            r.inconclusive(format!("no engine for property {}", p));
            r
        }
    };
    (rep, extra)
}
