//! Minimal JSON value, writer and parser (no crates available offline beyond zerocopy).

#[derive(Clone, Debug, PartialEq)]
pub enum J {
    Null,
    Bool(bool),
    Int(i128),
    Num(f64),
    Str(String),
    Arr(Vec<J>),
    Obj(Vec<(String, J)>),
}

impl From<&str> for J {
    fn from(s: &str) -> J {
        J::Str(s.to_string())
    }
}
impl From<String> for J {
    fn from(s: String) -> J {
        J::Str(s)
    }
}
impl From<u64> for J {
    fn from(v: u64) -> J {
        J::Int(v as i128)
    }
}
impl From<usize> for J {
    fn from(v: usize) -> J {
        J::Int(v as i128)
    }
}
impl From<i64> for J {
    fn from(v: i64) -> J {
        J::Int(v as i128)
    }
}
impl From<u32> for J {
    fn from(v: u32) -> J {
        J::Int(v as i128)
    }
}
impl From<bool> for J {
    fn from(v: bool) -> J {
        J::Bool(v)
    }
}
impl From<f64> for J {
    fn from(v: f64) -> J {
        J::Num(v)
    }
}

pub fn obj(items: Vec<(&str, J)>) -> J {
    J::Obj(items.into_iter().map(|(k, v)| (k.to_string(), v)).collect())
}

pub fn hex(b: &[u8]) -> String {
    let mut s = String::with_capacity(b.len() * 2);
    for x in b {
        s.push_str(&format!("{:02x}", x));
    }
    s
}

/// Hex of a possibly large byte string, abbreviated around `focus`.
pub fn hex_window(b: &[u8], focus: usize, radius: usize) -> String {
    let lo = focus.saturating_sub(radius);
    let hi = (focus + radius).min(b.len());
    format!("[{}..{}) of {}: {}", lo, hi, b.len(), hex(&b[lo.min(b.len())..hi]))
}

impl J {
    pub fn get(&self, k: &str) -> Option<&J> {
        match self {
            J::Obj(v) => v.iter().find(|(kk, _)| kk == k).map(|(_, v)| v),
            _ => None,
        }
    }
    pub fn as_str(&self) -> Option<&str> {
        match self {
            J::Str(s) => Some(s),
            _ => None,
        }
    }
    pub fn as_i128(&self) -> Option<i128> {
        match self {
            J::Int(i) => Some(*i),
            J::Num(f) => Some(*f as i128),
            _ => None,
        }
    }
    pub fn as_arr(&self) -> Option<&Vec<J>> {
        match self {
            J::Arr(a) => Some(a),
            _ => None,
        }
    }
    pub fn set(&mut self, k: &str, v: J) {
        if let J::Obj(items) = self {
            for it in items.iter_mut() {
                if it.0 == k {
                    it.1 = v;
                    return;
                }
            }
            items.push((k.to_string(), v));
        }
    }

    pub fn write(&self, out: &mut String, indent: usize, pretty: bool) {
        let pad = |out: &mut String, n: usize| {
            if pretty {
                out.push('\n');
                for _ in 0..n {
                    out.push(' ');
                }
            }
        };
        match self {
            J::Null => out.push_str("null"),
            J::Bool(b) => out.push_str(if *b { "true" } else { "false" }),
            J::Int(i) => out.push_str(&i.to_string()),
            J::Num(f) => {
                if f.is_finite() {
                    out.push_str(&format!("{:.3}", f));
                } else {
                    out.push_str("0")
                }
            }
            J::Str(s) => {
                out.push('"');
                for c in s.chars() {
                    match c {
                        '"' => out.push_str("\\\""),
                        '\\' => out.push_str("\\\\"),
                        '\n' => out.push_str("\\n"),
                        '\r' => out.push_str("\\r"),
                        '\t' => out.push_str("\\t"),
                        c if (c as u32) < 0x20 => out.push_str(&format!("\\u{:04x}", c as u32)),
                        c => out.push(c),
                    }
                }
                out.push('"');
            }
            J::Arr(a) => {
                out.push('[');
                for (i, v) in a.iter().enumerate() {
                    if i > 0 {
                        out.push(',');
                    }
                    pad(out, indent + 1);
                    v.write(out, indent + 1, pretty);
                }
                if !a.is_empty() {
                    pad(out, indent);
                }
                out.push(']');
            }
            J::Obj(o) => {
                out.push('{');
                for (i, (k, v)) in o.iter().enumerate() {
                    if i > 0 {
                        out.push(',');
                    }
                    pad(out, indent + 1);
                    J::Str(k.clone()).write(out, 0, false);
                    out.push(':');
                    if pretty {
                        out.push(' ');
                    }
                    v.write(out, indent + 1, pretty);
                }
                if !o.is_empty() {
                    pad(out, indent);
                }
                out.push('}');
            }
        }
    }
    pub fn pretty(&self) -> String {
        let mut s = String::new();
        self.write(&mut s, 0, true);
        s.push('\n');
        s
    }
    pub fn compact(&self) -> String {
        let mut s = String::new();
        self.write(&mut s, 0, false);
        s
    }
}

pub struct Parser<'a> {
    b: &'a [u8],
    i: usize,
}

pub fn parse(s: &str) -> Result<J, String> {
    let mut p = Parser { b: s.as_bytes(), i: 0 };
    let v = p.value()?;
    p.ws();
    if p.i != p.b.len() {
        return Err(format!("trailing data at {}", p.i));
    }
    Ok(v)
}

impl<'a> Parser<'a> {
    fn ws(&mut self) {
        while self.i < self.b.len() && (self.b[self.i] as char).is_ascii_whitespace() {
            self.i += 1;
        }
    }
    fn value(&mut self) -> Result<J, String> {
        self.ws();
        if self.i >= self.b.len() {
            return Err("eof".into());
        }
        match self.b[self.i] {
            b'{' => {
                self.i += 1;
                let mut items = Vec::new();
                loop {
                    self.ws();
                    if self.peek() == Some(b'}') {
                        self.i += 1;
                        break;
                    }
                    let k = match self.value()? {
                        J::Str(s) => s,
                        _ => return Err("key".into()),
                    };
                    self.ws();
                    if self.peek() != Some(b':') {
                        return Err("colon".into());
                    }
                    self.i += 1;
                    let v = self.value()?;
                    items.push((k, v));
                    self.ws();
                    match self.peek() {
                        Some(b',') => self.i += 1,
                        Some(b'}') => {
                            self.i += 1;
                            break;
                        }
                        _ => return Err(format!("obj sep at {}", self.i)),
                    }
                }
                Ok(J::Obj(items))
            }
            b'[' => {
                self.i += 1;
                let mut items = Vec::new();
                loop {
                    self.ws();
                    if self.peek() == Some(b']') {
                        self.i += 1;
                        break;
                    }
                    items.push(self.value()?);
                    self.ws();
                    match self.peek() {
                        Some(b',') => self.i += 1,
                        Some(b']') => {
                            self.i += 1;
                            break;
                        }
                        _ => return Err(format!("arr sep at {}", self.i)),
                    }
                }
                Ok(J::Arr(items))
            }
            b'"' => {
                self.i += 1;
                let mut s = Vec::new();
                while self.i < self.b.len() && self.b[self.i] != b'"' {
                    if self.b[self.i] == b'\\' {
                        self.i += 1;
                        match self.b.get(self.i) {
                            Some(b'n') => s.push(b'\n'),
                            Some(b't') => s.push(b'\t'),
                            Some(b'r') => s.push(b'\r'),
                            Some(b'u') => {
                                let h = std::str::from_utf8(&self.b[self.i + 1..self.i + 5]).map_err(|e| e.to_string())?;
                                let c = u32::from_str_radix(h, 16).map_err(|e| e.to_string())?;
                                let mut buf = [0u8; 4];
                                s.extend_from_slice(char::from_u32(c).unwrap_or('?').encode_utf8(&mut buf).as_bytes());
                                self.i += 4;
                            }
                            Some(c) => s.push(*c),
                            None => return Err("eof in string".into()),
                        }
                        self.i += 1;
                    } else {
                        s.push(self.b[self.i]);
                        self.i += 1;
                    }
                }
                self.i += 1;
                Ok(J::Str(String::from_utf8_lossy(&s).into_owned()))
            }
            b't' => {
                self.i += 4;
                Ok(J::Bool(true))
            }
            b'f' => {
                self.i += 5;
                Ok(J::Bool(false))
            }
            b'n' => {
                self.i += 4;
                Ok(J::Null)
            }
            _ => {
                let st = self.i;
                while self.i < self.b.len() && matches!(self.b[self.i], b'-' | b'+' | b'.' | b'e' | b'E' | b'0'..=b'9') {
                    self.i += 1;
                }
                let t = std::str::from_utf8(&self.b[st..self.i]).map_err(|e| e.to_string())?;
                if let Ok(i) = t.parse::<i128>() {
                    Ok(J::Int(i))
                } else {
                    t.parse::<f64>().map(J::Num).map_err(|e| format!("number {:?}: {}", t, e))
                }
            }
        }
    }
    fn peek(&self) -> Option<u8> {
        self.b.get(self.i).copied()
    }
}
