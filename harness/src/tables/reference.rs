//! Specification-derived reference encoder (Appendix A of DESIGN.md). Offset-addressed:
//! every structure is a zeroed buffer of the specification's size into which each field is
//! `put` at its specified offset and width. Deliberately unlike the crate's sequential sink
//! writes and packed structs. The checksum byte(s) are left 0 here: C01 judges the checksum
//! arithmetically, C04 compares every other byte.

use super::ops::*;

pub fn put(buf: &mut [u8], off: usize, width: usize, v: u64) {
    for i in 0..width {
        buf[off + i] = (v >> (8 * i)) as u8;
    }
}
pub fn put_bytes(buf: &mut [u8], off: usize, b: &[u8]) {
    buf[off..off + b.len()].copy_from_slice(b);
}
pub fn get(buf: &[u8], off: usize, width: usize) -> u64 {
    let mut v = 0u64;
    for i in 0..width {
        v |= (buf[off + i] as u64) << (8 * i);
    }
    v
}

pub const CREATOR_ID: &[u8; 4] = b"RVAT";
pub const CREATOR_REV: [u8; 4] = [0, 0, 0, 1];

pub fn std_header(sig: &[u8; 4], rev: u8, h: &Hdr, len: u32) -> Vec<u8> {
    let mut b = vec![0u8; 36];
    put_bytes(&mut b, 0, sig);
    put(&mut b, 4, 4, len as u64);
    put(&mut b, 8, 1, rev as u64);
    // 9: checksum, judged by C01
    put_bytes(&mut b, 10, &h.oem_id);
    put_bytes(&mut b, 16, &h.oem_table_id);
    put(&mut b, 24, 4, h.oem_rev as u64);
    put_bytes(&mut b, 28, CREATOR_ID);
    put_bytes(&mut b, 32, &CREATOR_REV);
    b
}

pub fn gas(g: &GasArg) -> Vec<u8> {
    let mut b = vec![0u8; 12];
    put(&mut b, 0, 1, GAS_SPACES[g.space as usize] as u64);
    put(&mut b, 1, 1, g.width as u64);
    put(&mut b, 2, 1, g.offset as u64);
    put(&mut b, 3, 1, g.access as u64);
    put(&mut b, 4, 8, g.addr);
    b
}

pub fn bdf(bus: u8, dev: u8, func: u8) -> u64 {
    ((bus as u64) << 8) | ((dev as u64) << 3) | func as u64
}

#[derive(Clone, Debug)]
pub struct EntryExp {
    pub off: usize,
    pub len: usize,
    /// type code as found in the entry's own type field (u64::MAX when entries carry no type)
    pub ty: u64,
    pub name: &'static str,
}

/// A cross reference the image must contain: `width` bytes at `field_off` must hold the offset
/// of a node of type `target_ty` that starts exactly at `target_off`.
#[derive(Clone, Debug)]
pub struct RefExp {
    pub field_off: usize,
    pub width: usize,
    pub target_off: usize,
    pub target_ty: u64,
    pub what: &'static str,
}

#[derive(Clone, Debug)]
pub struct RefTable {
    pub kind: Kind,
    pub img: Vec<u8>,
    pub first_entry: usize,
    pub entries: Vec<EntryExp>,
    pub refs: Vec<RefExp>,
    // handle tables: expected offsets of handle-returning nodes, in order of return
    pub proc_offs: Vec<usize>,
    pub cache_offs: Vec<usize>,
    pub isa_offs: Vec<usize>,
    pub cmo_offs: Vec<usize>,
    pub iommu_offs: Vec<usize>,
    pub viot_offs: Vec<(usize, u64)>,
    /// number of RDPAS entries (known finding F10 bookkeeping)
    pub rdpas: usize,
    /// SLIT localities
    pub slit_n: usize,
    /// bytes the caller has written into the Length field directly (Sdt only): C02 not judged
    pub sdt_len_overwritten: bool,
    /// TCPA-server / FADT state lives directly in img
    pub tpm2_has_log: bool,
}

pub const FADT_FLAG_BITS: [u32; 25] = [
    1 << 0,
    1 << 1,
    1 << 2,
    1 << 3,
    1 << 4,
    1 << 5,
    1 << 6,
    1 << 7,
    1 << 8,
    1 << 9,
    1 << 10,
    1 << 11,
    1 << 12,
    1 << 13,
    1 << 14,
    1 << 15,
    1 << 16,
    1 << 17,
    1 << 18,
    1 << 19,
    1 << 20,
    1 << 21,
    0 << 22,
    1 << 22,
    2 << 22,
];

/// (offset, width) of every pub value field of the FADT in declaration order of Appendix A.1.
/// GAS fields are listed as width 12 and written from a 12-byte pattern.
pub const FADT_FIELDS: [(usize, usize, &str); 53] = [
    (36, 4, "FIRMWARE_CTRL"),
    (40, 4, "DSDT"),
    (45, 1, "Preferred_PM_Profile"),
    (46, 2, "SCI_INT"),
    (48, 4, "SMI_CMD"),
    (52, 1, "ACPI_ENABLE"),
    (53, 1, "ACPI_DISABLE"),
    (54, 1, "S4BIOS_REQ"),
    (55, 1, "PSTATE_CNT"),
    (56, 4, "PM1a_EVT_BLK"),
    (60, 4, "PM1b_EVT_BLK"),
    (64, 4, "PM1a_CNT_BLK"),
    (68, 4, "PM1b_CNT_BLK"),
    (72, 4, "PM2_CNT_BLK"),
    (76, 4, "PM_TMR_BLK"),
    (80, 4, "GPE0_BLK"),
    (84, 4, "GPE1_BLK"),
    (88, 1, "PM1_EVT_LEN"),
    (89, 1, "PM1_CNT_LEN"),
    (90, 1, "PM2_CNT_LEN"),
    (91, 1, "PM_TMR_LEN"),
    (92, 1, "GPE0_BLK_LEN"),
    (93, 1, "GPE1_BLK_LEN"),
    (94, 1, "GPE1_BASE"),
    (95, 1, "CST_CNT"),
    (96, 2, "P_LVL2_LAT"),
    (98, 2, "P_LVL3_LAT"),
    (100, 2, "FLUSH_SIZE"),
    (102, 2, "FLUSH_STRIDE"),
    (104, 1, "DUTY_OFFSET"),
    (105, 1, "DUTY_WIDTH"),
    (106, 1, "DAY_ALRM"),
    (107, 1, "MON_ALRM"),
    (108, 1, "CENTURY"),
    (109, 2, "IAPC_BOOT_ARCH"),
    (112, 4, "Flags"),
    (116, 12, "RESET_REG"),
    (128, 1, "RESET_VALUE"),
    (129, 2, "ARM_BOOT_ARCH"),
    (131, 1, "FADT_Minor_Version"),
    (132, 8, "X_FIRMWARE_CTRL"),
    (140, 8, "X_DSDT"),
    (148, 12, "X_PM1a_EVT_BLK"),
    (160, 12, "X_PM1b_EVT_BLK"),
    (172, 12, "X_PM1a_CNT_BLK"),
    (184, 12, "X_PM1b_CNT_BLK"),
    (196, 12, "X_PM2_CNT_BLK"),
    (208, 12, "X_PM_TMR_BLK"),
    (220, 12, "X_GPE0_BLK"),
    (232, 12, "X_GPE1_BLK"),
    (244, 12, "SLEEP_CONTROL_REG"),
    (256, 12, "SLEEP_STATUS_REG"),
    (268, 8, "Hypervisor_Vendor_Identity"),
];

/// FACS pub value fields (offset, width)
pub const FACS_FIELDS: [(usize, usize, &str); 7] = [
    (8, 4, "hardware_signature"),
    (12, 4, "waking_vector"),
    (16, 4, "global_lock"),
    (20, 4, "flags"),
    (24, 8, "x_waking_vector"),
    (32, 1, "version"),
    (36, 4, "ospm_flags"),
];

impl RefTable {
    fn blank(kind: Kind, img: Vec<u8>, first_entry: usize) -> Self {
        RefTable {
            kind,
            img,
            first_entry,
            entries: Vec::new(),
            refs: Vec::new(),
            proc_offs: Vec::new(),
            cache_offs: Vec::new(),
            isa_offs: Vec::new(),
            cmo_offs: Vec::new(),
            iommu_offs: Vec::new(),
            viot_offs: Vec::new(),
            rdpas: 0,
            slit_n: 0,
            sdt_len_overwritten: false,
            tpm2_has_log: false,
        }
    }

    pub fn new(p: &Prog) -> Self {
        let h = &p.hdr;
        let hd = |sig: &[u8; 4], rev: u8, extra: usize| {
            let mut b = std_header(sig, rev, h, (36 + extra) as u32);
            b.resize(36 + extra, 0);
            b
        };
        match (p.kind, &p.ctor) {
            (Kind::Xsdt, _) => Self::blank(p.kind, hd(b"XSDT", 1, 0), 36),
            (Kind::Mcfg, _) => Self::blank(p.kind, hd(b"MCFG", 1, 8), 44),
            (Kind::Madt, Ctor::Madt(lica)) => {
                let mut b = hd(b"APIC", 1, 8);
                put(&mut b, 36, 4, lica.unwrap_or(0) as u64);
                put(&mut b, 40, 4, 0);
                Self::blank(p.kind, b, 44)
            }
            (Kind::Srat, _) => {
                let mut b = hd(b"SRAT", 1, 12);
                put(&mut b, 36, 4, 1); // reserved, must be 1
                Self::blank(p.kind, b, 48)
            }
            (Kind::Slit, Ctor::Slit(n)) => {
                let n = *n as usize;
                let mut b = hd(b"SLIT", 1, 8 + n * n);
                put(&mut b, 36, 8, n as u64);
                for c in b[44..].iter_mut() {
                    *c = 10;
                }
                let mut t = Self::blank(p.kind, b, 44);
                t.slit_n = n;
                t
            }
            (Kind::Hmat, _) => Self::blank(p.kind, hd(b"HMAT", 1, 4), 40),
            (Kind::Pptt, _) => Self::blank(p.kind, hd(b"PPTT", 1, 0), 36),
            (Kind::Rhct, Ctor::Rhct(tb)) => {
                let mut b = hd(b"RHCT", 1, 20);
                put(&mut b, 36, 4, 0);
                put(&mut b, 40, 8, *tb);
                put(&mut b, 48, 4, 0);
                put(&mut b, 52, 4, 56);
                Self::blank(p.kind, b, 56)
            }
            (Kind::Rimt, _) => {
                let mut b = hd(b"RIMT", 1, 12);
                put(&mut b, 36, 4, 0);
                put(&mut b, 40, 4, 48);
                Self::blank(p.kind, b, 48)
            }
            (Kind::Viot, _) => {
                let mut b = hd(b"VIOT", 1, 12);
                put(&mut b, 36, 2, 0);
                put(&mut b, 38, 2, 48);
                Self::blank(p.kind, b, 48)
            }
            (Kind::Cedt, _) => Self::blank(p.kind, hd(b"CEDT", 1, 0), 36),
            (Kind::Hest, _) => Self::blank(p.kind, hd(b"HEST", 1, 4), 40),
            (Kind::Rqsc, _) => Self::blank(p.kind, hd(b"RQSC", 1, 4), 40),
            (Kind::Bert, Ctor::Bert { len, base }) => {
                let mut b = hd(b"BERT", 1, 12);
                put(&mut b, 36, 4, *len as u64);
                put(&mut b, 40, 8, *base);
                Self::blank(p.kind, b, 48)
            }
            (Kind::Spcr, _) => {
                let mut b = hd(b"SPCR", 4, 54);
                put(&mut b, 36, 1, 0x15); // RISC-V SBI console
                                          // 40..52 GAS zero; interrupt/irq/gsi/baud.. zero
                put(&mut b, 64, 2, 0xFFFF);
                put(&mut b, 66, 2, 0xFFFF);
                put(&mut b, 84, 2, 2); // namespace string length
                put(&mut b, 86, 2, 88); // namespace string offset, from start of table
                put_bytes(&mut b, 88, b".\0");
                Self::blank(p.kind, b, 90)
            }
            (Kind::TcpaClient, Ctor::TcpaClient { laml, lasa }) => {
                let mut b = hd(b"TCPA", 2, 14);
                put(&mut b, 36, 2, 0);
                put(&mut b, 38, 4, *laml as u64);
                put(&mut b, 42, 8, *lasa);
                Self::blank(p.kind, b, 50)
            }
            (Kind::TcpaServer, _) => {
                let mut b = hd(b"TCPA", 2, 64);
                put(&mut b, 36, 2, 1);
                put_bytes(&mut b, 56, &[1, 2]);
                Self::blank(p.kind, b, 100)
            }
            (Kind::Tpm2, Ctor::Tpm2 { server, base, start }) => {
                let mut b = hd(b"TPM2", 1, 16);
                put(&mut b, 36, 2, *server as u64);
                put(&mut b, 40, 8, *base);
                put(&mut b, 48, 4, *start as u64);
                Self::blank(p.kind, b, 52)
            }
            (Kind::Fadt, _) => {
                let mut b = hd(b"FACP", 6, 240);
                put(&mut b, 131, 1, 5);
                Self::blank(p.kind, b, 276)
            }
            (Kind::Sdt, Ctor::Sdt { sig, len, rev }) => {
                let mut b = std_header(sig, *rev, h, *len);
                b.resize(*len as usize, 0);
                Self::blank(p.kind, b, 36)
            }
            (Kind::Rsdp, Ctor::Rsdp { xsdt }) => {
                let mut b = vec![0u8; 36];
                put_bytes(&mut b, 0, b"RSD PTR ");
                put_bytes(&mut b, 9, &h.oem_id);
                put(&mut b, 15, 1, 2);
                put(&mut b, 20, 4, 36);
                put(&mut b, 24, 8, *xsdt);
                Self::blank(p.kind, b, 36)
            }
            (Kind::Facs, _) => {
                let mut b = vec![0u8; 64];
                put_bytes(&mut b, 0, b"FACS");
                put(&mut b, 4, 4, 64);
                put(&mut b, 32, 1, 1);
                Self::blank(p.kind, b, 64)
            }
            (k, c) => panic!("harness: bad ctor {:?} for {:?}", c, k),
        }
    }

    fn push_entry(&mut self, e: Vec<u8>, ty: u64, name: &'static str) -> usize {
        let off = self.img.len();
        self.entries.push(EntryExp { off, len: e.len(), ty, name });
        self.img.extend_from_slice(&e);
        let l = self.img.len() as u64;
        put(&mut self.img, 4, 4, l);
        off
    }

    /// Apply one abstract operation to the reference image.
    pub fn apply(&mut self, op: &Op) {
        match op {
            Op::XsdtEntry(v) => {
                let mut e = vec![0u8; 8];
                put(&mut e, 0, 8, *v);
                self.push_entry(e, u64::MAX, "xsdt.entry");
            }
            Op::McfgEcam { base, seg, start, end } => {
                let mut e = vec![0u8; 16];
                put(&mut e, 0, 8, *base);
                put(&mut e, 8, 2, *seg as u64);
                put(&mut e, 10, 1, *start as u64);
                put(&mut e, 11, 1, *end as u64);
                self.push_entry(e, u64::MAX, "mcfg.ecam");
            }
            Op::Lapic { .. }
            | Op::IoApic { .. }
            | Op::Gicc { .. }
            | Op::Gicd { .. }
            | Op::GicMsi { .. }
            | Op::Gicr { .. }
            | Op::Its { .. }
            | Op::Rintc { .. }
            | Op::Imsic { .. }
            | Op::Aplic { .. }
            | Op::Plic { .. } => {
                let e = madt_entry(op);
                let ty = e[0] as u64;
                self.push_entry(e, ty, op.kind_name());
            }
            Op::MemAff { .. } | Op::GenInit { .. } | Op::RintcAff { .. } => {
                let e = srat_entry(op);
                let ty = e[0] as u64;
                self.push_entry(e, ty, op.kind_name());
            }
            Op::SlitSet { a, b, v } => {
                let n = self.slit_n;
                self.img[44 + a * n + b] = *v;
                self.img[44 + b * n + a] = *v;
            }
            Op::Mpda { .. } | Op::Sllbi { .. } | Op::Msc { .. } => {
                let e = hmat_entry(op);
                let ty = get(&e, 0, 2);
                self.push_entry(e, ty, op.kind_name());
            }
            Op::Cache { calls } => {
                let mut e = vec![0u8; 28];
                put(&mut e, 0, 1, 1);
                put(&mut e, 1, 1, 28);
                let mut flags = 0u64;
                let mut attr = 0u64;
                let mut next_ref: Option<usize> = None;
                for (c, v) in calls {
                    let v = *v as u64;
                    match c {
                        0 => {
                            let t = self.cache_offs[v as usize];
                            put(&mut e, 8, 4, t as u64);
                            next_ref = Some(t);
                        }
                        1 => {
                            put(&mut e, 12, 4, v);
                            flags |= 1 << 0;
                        }
                        2 => {
                            put(&mut e, 16, 4, v);
                            flags |= 1 << 1;
                        }
                        3 => {
                            put(&mut e, 20, 1, v);
                            flags |= 1 << 2;
                        }
                        4 => {
                            // allocation type: 0 read, 1 write, 2 read+write in bits 1:0
                            attr |= v & 3;
                            flags |= 1 << 3;
                        }
                        5 => {
                            // cache type: 0 data, 1 instruction, 2 unified in bits 3:2
                            attr |= (v & 3) << 2;
                            flags |= 1 << 4;
                        }
                        6 => {
                            // write policy: 0 write back, 1 write through in bit 4
                            attr |= (v & 1) << 4;
                            flags |= 1 << 5;
                        }
                        7 => {
                            put(&mut e, 22, 2, v);
                            flags |= 1 << 6;
                        }
                        8 => {
                            put(&mut e, 24, 4, v);
                            flags |= 1 << 7;
                        }
                        _ => unreachable!(),
                    }
                }
                put(&mut e, 4, 4, flags);
                put(&mut e, 21, 1, attr);
                let off = self.push_entry(e, 1, "pptt.cache");
                if let Some(t) = next_ref {
                    self.refs.push(RefExp { field_off: off + 8, width: 4, target_off: t, target_ty: 1, what: "pptt cache next-level" });
                }
                self.cache_offs.push(off);
            }
            Op::Proc { parent, id, caches, flag_calls } => {
                let len = 20 + 4 * caches.len();
                let mut e = vec![0u8; len];
                put(&mut e, 0, 1, 0);
                put(&mut e, 1, 1, len as u64);
                let mut flags = 0u64;
                for f in flag_calls {
                    flags |= 1 << *f;
                }
                put(&mut e, 4, 4, flags);
                let pt = parent.map(|i| self.proc_offs[i]);
                put(&mut e, 8, 4, pt.unwrap_or(0) as u64);
                put(&mut e, 12, 4, *id as u64);
                put(&mut e, 16, 4, caches.len() as u64);
                for (k, c) in caches.iter().enumerate() {
                    put(&mut e, 20 + 4 * k, 4, self.cache_offs[*c] as u64);
                }
                let off = self.push_entry(e, 0, "pptt.processor");
                if let Some(t) = pt {
                    self.refs.push(RefExp { field_off: off + 8, width: 4, target_off: t, target_ty: 0, what: "pptt processor parent" });
                }
                for (k, c) in caches.iter().enumerate() {
                    self.refs.push(RefExp {
                        field_off: off + 20 + 4 * k,
                        width: 4,
                        target_off: self.cache_offs[*c],
                        target_ty: 1,
                        what: "pptt private resource",
                    });
                }
                self.proc_offs.push(off);
            }
            Op::Isa { s } => {
                let strlen = s.len() + 1;
                let len = 8 + strlen + (strlen & 1);
                let mut e = vec![0u8; len];
                put(&mut e, 0, 2, 0);
                put(&mut e, 2, 2, len as u64);
                put(&mut e, 4, 2, 1);
                put(&mut e, 6, 2, strlen as u64);
                put_bytes(&mut e, 8, s.as_bytes());
                let off = self.push_entry(e, 0, "rhct.isa");
                self.isa_offs.push(off);
                self.bump_count(48, 4);
            }
            Op::Mmu { scheme } => {
                let mut e = vec![0u8; 8];
                put(&mut e, 0, 2, 2);
                put(&mut e, 2, 2, 8);
                put(&mut e, 4, 2, 1);
                put(&mut e, 7, 1, *scheme as u64);
                self.push_entry(e, 2, "rhct.mmu");
                self.bump_count(48, 4);
            }
            Op::Cmo { cbom, cbop, cboz } => {
                let mut e = vec![0u8; 10];
                put(&mut e, 0, 2, 1);
                put(&mut e, 2, 2, 10);
                put(&mut e, 4, 2, 1);
                put(&mut e, 7, 1, *cbom as u64);
                put(&mut e, 8, 1, *cbop as u64);
                put(&mut e, 9, 1, *cboz as u64);
                let off = self.push_entry(e, 1, "rhct.cmo");
                self.cmo_offs.push(off);
                self.bump_count(48, 4);
            }
            Op::HartInfo { uid, isa, cmos } => {
                let k = 1 + cmos.len();
                let len = 12 + 4 * k;
                let mut e = vec![0u8; len];
                put(&mut e, 0, 2, 0xFFFF);
                put(&mut e, 2, 2, len as u64);
                put(&mut e, 4, 2, 1);
                put(&mut e, 6, 2, k as u64);
                put(&mut e, 8, 4, *uid as u64);
                put(&mut e, 12, 4, self.isa_offs[*isa] as u64);
                for (j, c) in cmos.iter().enumerate() {
                    put(&mut e, 16 + 4 * j, 4, self.cmo_offs[*c] as u64);
                }
                let off = self.push_entry(e, 0xFFFF, "rhct.hartinfo");
                self.refs.push(RefExp { field_off: off + 12, width: 4, target_off: self.isa_offs[*isa], target_ty: 0, what: "rhct hart-info isa offset" });
                for (j, c) in cmos.iter().enumerate() {
                    self.refs.push(RefExp {
                        field_off: off + 16 + 4 * j,
                        width: 4,
                        target_off: self.cmo_offs[*c],
                        target_ty: 1,
                        what: "rhct hart-info cmo offset",
                    });
                }
                self.bump_count(48, 4);
            }
            Op::Iommu { id, base, pci, pd, wires } => {
                let w = wires.as_ref().map_or(0, |w| w.len());
                let len = 32 + 8 * w;
                let mut e = vec![0u8; len];
                put(&mut e, 0, 1, 0);
                put(&mut e, 1, 1, 1);
                put(&mut e, 2, 2, len as u64);
                put(&mut e, 4, 2, *id as u64);
                put(&mut e, 8, 8, base.unwrap_or(0));
                let mut flags = 0u64;
                if let Some((seg, bus, dev, func)) = pci {
                    flags |= 1;
                    put(&mut e, 20, 2, *seg as u64);
                    put(&mut e, 22, 2, bdf(*bus, *dev, *func));
                }
                if let Some(pd) = pd {
                    flags |= 2;
                    put(&mut e, 24, 4, *pd as u64);
                }
                put(&mut e, 16, 4, flags);
                put(&mut e, 28, 2, w as u64);
                put(&mut e, 30, 2, 32);
                if let Some(ws) = wires {
                    for (k, wi) in ws.iter().enumerate() {
                        let o = 32 + 8 * k;
                        put(&mut e, o, 4, wi.num as u64);
                        put(&mut e, o + 4, 2, (wi.level as u64) | ((wi.high as u64) << 1));
                        put(&mut e, o + 6, 2, wi.aplic as u64);
                    }
                }
                let off = self.push_entry(e, 0, "rimt.iommu");
                self.iommu_offs.push(off);
                self.bump_count(36, 4);
            }
            Op::RootComplex { id, seg, ats, pri, maps } => {
                let m = maps.as_ref().map_or(0, |m| m.len());
                let len = 16 + 20 * m;
                let mut e = vec![0u8; len];
                put(&mut e, 0, 1, 1);
                put(&mut e, 1, 1, 1);
                put(&mut e, 2, 2, len as u64);
                put(&mut e, 4, 2, *id as u64);
                put(&mut e, 6, 2, *seg as u64);
                put(&mut e, 8, 4, (*ats as u64) | ((*pri as u64) << 1));
                put(&mut e, 12, 2, 16);
                put(&mut e, 14, 2, m as u64);
                let base_off = self.img.len();
                self.put_maps(&mut e, 16, maps, base_off);
                self.push_entry(e, 1, "rimt.rootcomplex");
                self.bump_count(36, 4);
            }
            Op::Platform { id, name, maps } => {
                let m = maps.as_ref().map_or(0, |m| m.len());
                let mo = 12 + name.len() + 1;
                let len = mo + 20 * m;
                let mut e = vec![0u8; len];
                put(&mut e, 0, 1, 2);
                put(&mut e, 1, 1, 1);
                put(&mut e, 2, 2, len as u64);
                put(&mut e, 4, 2, *id as u64);
                put(&mut e, 8, 2, mo as u64);
                put(&mut e, 10, 2, m as u64);
                put_bytes(&mut e, 12, name.as_bytes());
                let base_off = self.img.len();
                self.put_maps(&mut e, mo, maps, base_off);
                self.push_entry(e, 2, "rimt.platform");
                self.bump_count(36, 4);
            }
            Op::ViotPciIommu { seg, bus, dev, func } => {
                let mut e = vec![0u8; 16];
                put(&mut e, 0, 1, 3);
                put(&mut e, 2, 2, 16);
                put(&mut e, 4, 2, *seg as u64);
                put(&mut e, 6, 2, bdf(*bus, *dev, *func));
                let off = self.push_entry(e, 3, "viot.pci_iommu");
                self.viot_offs.push((off, 3));
                self.bump_count(36, 2);
            }
            Op::ViotMmioIommu { base } => {
                let mut e = vec![0u8; 16];
                put(&mut e, 0, 1, 4);
                put(&mut e, 2, 2, 16);
                put(&mut e, 8, 8, *base);
                let off = self.push_entry(e, 4, "viot.mmio_iommu");
                self.viot_offs.push((off, 4));
                self.bump_count(36, 2);
            }
            Op::ViotPciRange { first, last, handle } => {
                let mut e = vec![0u8; 24];
                put(&mut e, 0, 1, 1);
                put(&mut e, 2, 2, 24);
                put(&mut e, 4, 4, bdf(first.1, first.2, first.3)); // endpoint start = first BDF (crate's choice)
                put(&mut e, 8, 2, first.0 as u64);
                put(&mut e, 10, 2, last.0 as u64);
                put(&mut e, 12, 2, bdf(first.1, first.2, first.3));
                put(&mut e, 14, 2, bdf(last.1, last.2, last.3));
                let (t, ty) = self.viot_offs[*handle];
                put(&mut e, 16, 2, t as u64);
                let off = self.push_entry(e, 1, "viot.pci_range");
                self.refs.push(RefExp { field_off: off + 16, width: 2, target_off: t, target_ty: ty, what: "viot pci-range output node" });
                self.bump_count(36, 2);
            }
            Op::ViotMmioEp { ep, base, handle } => {
                let mut e = vec![0u8; 24];
                put(&mut e, 0, 1, 2);
                put(&mut e, 2, 2, 24);
                put(&mut e, 4, 4, *ep as u64);
                put(&mut e, 8, 8, *base);
                let (t, ty) = self.viot_offs[*handle];
                put(&mut e, 16, 2, t as u64);
                let off = self.push_entry(e, 2, "viot.mmio_endpoint");
                self.refs.push(RefExp { field_off: off + 16, width: 2, target_off: t, target_ty: ty, what: "viot mmio-endpoint output node" });
                self.bump_count(36, 2);
            }
            Op::Chbs { uid, v2, base } => {
                let mut e = vec![0u8; 32];
                put(&mut e, 0, 1, 0);
                put(&mut e, 2, 2, 32);
                put(&mut e, 4, 4, *uid as u64);
                put(&mut e, 8, 4, *v2 as u64);
                put(&mut e, 16, 8, *base);
                put(&mut e, 24, 8, if *v2 { 0x1_0000 } else { 0x2000 });
                self.push_entry(e, 0, "cedt.chbs");
            }
            Op::Cfmws { base, size, arith, gran, ways, qtg, targets, opts } => {
                let len = 36 + 4 * targets.len();
                let mut e = vec![0u8; len];
                put(&mut e, 0, 1, 1);
                put(&mut e, 2, 2, len as u64);
                put(&mut e, 8, 8, *base);
                put(&mut e, 16, 8, *size);
                put(&mut e, 24, 1, *ways as u64);
                put(&mut e, 25, 1, *arith as u64);
                put(&mut e, 28, 4, *gran as u64);
                let mut r = 0u64;
                for o in opts {
                    r |= 1 << *o;
                }
                put(&mut e, 32, 2, r);
                put(&mut e, 34, 2, *qtg as u64);
                for (k, t) in targets.iter().enumerate() {
                    put_bytes(&mut e, 36 + 4 * k, t);
                }
                self.push_entry(e, 1, "cedt.cfmws");
            }
            Op::Cxims { gran, maps } => {
                let len = 8 + 8 * maps.len();
                let mut e = vec![0u8; len];
                put(&mut e, 0, 1, 2);
                put(&mut e, 2, 2, len as u64);
                put(&mut e, 6, 1, *gran as u64);
                put(&mut e, 7, 1, maps.len() as u64);
                for (k, m) in maps.iter().enumerate() {
                    put(&mut e, 8 + 8 * k, 8, *m);
                }
                self.push_entry(e, 2, "cedt.cxims");
            }
            Op::Rdpas { seg, bus, dev, func, mem, base } => {
                // CXL 3.0 table "RDPAS structure": the field list adds up to 17 bytes while the
                // Record Length value it prescribes is 0x10. The reference reproduces the table
                // literally; the resulting tiling/Length disagreement is known finding F10.
                let mut e = vec![0u8; 17];
                put(&mut e, 0, 1, 3);
                put(&mut e, 2, 2, 16);
                put(&mut e, 4, 2, *seg as u64);
                put(&mut e, 6, 2, bdf(*bus, *dev, *func));
                put(&mut e, 8, 1, *mem as u64);
                put(&mut e, 9, 8, *base);
                self.push_entry(e, 3, "cedt.rdpas");
                self.rdpas += 1;
            }
            Op::Aer { .. } | Op::Ghes { .. } => {
                let e = hest_entry(op);
                let ty = get(&e, 0, 2);
                self.push_entry(e, ty, op.kind_name());
                self.bump_count(36, 4);
            }
            Op::Controller { .. } => {
                let e = rqsc_controller(op);
                let ty = e[0] as u64;
                self.push_entry(e, ty, "rqsc.controller");
                self.bump_count(36, 4);
            }
            Op::Tpm2LogArea { min_len, base } => {
                self.img.resize(76, 0);
                put(&mut self.img, 4, 4, 76);
                put(&mut self.img, 64, 4, *min_len as u64);
                put(&mut self.img, 68, 8, *base);
                self.tpm2_has_log = true;
            }
            Op::Tcpa { call, a, b, gas: g } => {
                let img = &mut self.img;
                match call {
                    0 => {
                        put(img, 40, 8, *a);
                        put(img, 48, 8, *b);
                    }
                    1 => img[59] |= 1 << 1,
                    2 => img[59] |= 1 << 0,
                    3 => {
                        img[60] = *a as u8;
                        img[59] |= 1 << 2;
                    }
                    4 => {
                        put(img, 64, 4, *a & 0xffff_ffff);
                        img[59] |= 1 << 3;
                    }
                    5 => img[58] |= 1 << 1,
                    6 => {
                        put(img, 96, 4, *a & 0xffff_ffff); // segment, bus, device, function bytes
                        img[58] |= 1 << 0;
                    }
                    7 => put_bytes(img, 68, &gas(g.as_ref().unwrap())),
                    8 => {
                        put_bytes(img, 84, &gas(g.as_ref().unwrap()));
                        img[58] |= 1 << 2;
                    }
                    _ => unreachable!(),
                }
            }
            Op::Fadt { call, a, b, c } => {
                let img = &mut self.img;
                match call {
                    0 => {
                        put(img, 40, 4, *a & 0xffff_ffff);
                        put(img, 140, 8, 0);
                    }
                    1 => {
                        put(img, 40, 4, 0);
                        put(img, 140, 8, *a);
                    }
                    2 => {
                        put(img, 36, 4, *a & 0xffff_ffff);
                        put(img, 132, 8, 0);
                    }
                    3 => {
                        put(img, 36, 4, 0);
                        put(img, 132, 8, *a);
                    }
                    4 => {
                        img[52] = 1;
                        img[53] = 0;
                    }
                    5 => {
                        img[52] = 0;
                        img[53] = 1;
                    }
                    6 => {
                        let f = get(img, 112, 4) | FADT_FLAG_BITS[*a as usize] as u64;
                        put(img, 112, 4, f);
                    }
                    7 => {
                        put(img, 80, 4, *a & 0xffff_ffff);
                        put(img, 84, 4, *b & 0xffff_ffff);
                        img[92] = *c as u8;
                        img[93] = (*c >> 8) as u8;
                        img[94] = (*c >> 16) as u8;
                    }
                    8 => img[45] = *a as u8,
                    9 => {
                        let (off, w, _) = FADT_FIELDS[*a as usize];
                        if w == 12 {
                            put_bytes(img, off, &gas(&fadt_gas_pattern(*b)));
                        } else {
                            put(img, off, w, *b);
                        }
                    }
                    _ => unreachable!(),
                }
            }
            Op::FacsSet { idx, v } => {
                let (off, w, _) = FACS_FIELDS[*idx as usize];
                put(&mut self.img, off, w, *v);
            }
            Op::Sdt(s) => self.apply_sdt(s),
        }
    }

    fn bump_count(&mut self, off: usize, width: usize) {
        let c = get(&self.img, off, width) + 1;
        put(&mut self.img, off, width, c);
    }

    fn put_maps(&mut self, e: &mut [u8], at: usize, maps: &Option<Vec<MapArg>>, entry_off: usize) {
        if let Some(ms) = maps {
            for (k, m) in ms.iter().enumerate() {
                let o = at + 20 * k;
                put(e, o, 4, m.src as u64);
                put(e, o + 4, 4, m.dst as u64);
                put(e, o + 8, 4, m.num as u64);
                let t = self.iommu_offs[m.iommu];
                put(e, o + 12, 4, t as u64);
                put(e, o + 16, 4, (m.ats as u64) | ((m.pri as u64) << 1) | ((m.rciep as u64) << 2));
                self.refs.push(RefExp { field_off: entry_off + o + 12, width: 4, target_off: t, target_ty: 0, what: "rimt id-mapping destination iommu" });
            }
        }
    }

    /// The byte-vector model of the generic table (C13): append => extend + rewrite Length;
    /// write => copy in place (caller guarantees range); checksum byte recomputed by the judge.
    pub fn apply_sdt(&mut self, s: &SdtOp) {
        let app = |t: &mut RefTable, b: &[u8]| {
            t.img.extend_from_slice(b);
            let l = t.img.len() as u64;
            put(&mut t.img, 4, 4, l);
            t.sdt_len_overwritten = false;
        };
        let wr = |t: &mut RefTable, off: usize, b: &[u8]| {
            if !b.is_empty() && off < 8 && off + b.len() > 4 {
                t.sdt_len_overwritten = true;
            }
            t.img[off..off + b.len()].copy_from_slice(b);
        };
        match s {
            SdtOp::AppendU8(v) | SdtOp::SinkByte(v) => app(self, &[*v]),
            SdtOp::AppendU16(v) | SdtOp::SinkWord(v) => app(self, &v.to_le_bytes()),
            SdtOp::AppendU32(v) | SdtOp::SinkDword(v) => app(self, &v.to_le_bytes()),
            SdtOp::AppendU64(v) | SdtOp::SinkQword(v) => app(self, &v.to_le_bytes()),
            SdtOp::AppendSlice(v) => app(self, v),
            SdtOp::SinkVec(v) => {
                if !v.is_empty() {
                    app(self, v)
                }
            }
            SdtOp::AppendArr3(v) => app(self, v),
            SdtOp::WriteU8(o, v) => wr(self, *o, &[*v]),
            SdtOp::WriteU16(o, v) => wr(self, *o, &v.to_le_bytes()),
            SdtOp::WriteU32(o, v) => wr(self, *o, &v.to_le_bytes()),
            SdtOp::WriteU64(o, v) => wr(self, *o, &v.to_le_bytes()),
            SdtOp::WriteBytes(o, v) => wr(self, *o, v),
            SdtOp::WriteArr3(o, v) => wr(self, *o, v),
            SdtOp::UpdateChecksum => {}
        }
        self.img[9] = 0;
    }
}

/// 12-byte GAS pattern used for FADT pub GAS fields in layout checks.
pub fn fadt_gas_pattern(v: u64) -> GasArg {
    GasArg { space: (v % 13) as u8, width: (v >> 8) as u8, offset: (v >> 16) as u8, access: ((v >> 24) % 5) as u8, addr: v.rotate_left(29) ^ 0x1122_3344_5566_7788 }
}

pub fn madt_entry(op: &Op) -> Vec<u8> {
    match op {
        Op::Lapic { uid, apic, st } => {
            let mut e = vec![0u8; 8];
            put(&mut e, 0, 1, 0);
            put(&mut e, 1, 1, 8);
            put(&mut e, 2, 1, *uid as u64);
            put(&mut e, 3, 1, *apic as u64);
            put(&mut e, 4, 4, *st as u64); // 0 disabled, 1 enabled, 2 online capable
            e
        }
        Op::IoApic { id, addr, gsi } => {
            let mut e = vec![0u8; 12];
            put(&mut e, 0, 1, 1);
            put(&mut e, 1, 1, 12);
            put(&mut e, 2, 1, *id as u64);
            put(&mut e, 4, 4, *addr as u64);
            put(&mut e, 8, 4, *gsi as u64);
            e
        }
        Op::Gicc { st, sets } => {
            let mut e = vec![0u8; 82];
            put(&mut e, 0, 1, 0xB);
            put(&mut e, 1, 1, 82);
            let mut flags: u64 = match st {
                1 => 1 << 0,
                2 => 1 << 3,
                _ => 0,
            };
            // setter index -> (offset, width)
            const F: [(usize, usize); 12] =
                [(4, 4), (8, 4), (16, 4), (24, 8), (32, 8), (40, 8), (48, 8), (60, 8), (68, 8), (76, 1), (78, 2), (80, 2)];
            for (s, v) in sets {
                match s {
                    0..=11 => {
                        let (o, w) = F[*s as usize];
                        put(&mut e, o, w, *v);
                    }
                    12 => {
                        put(&mut e, 20, 4, *v & 0xffff_ffff);
                        if (*v >> 32) & 1 == 1 {
                            flags |= 1 << 1;
                        }
                    }
                    13 => {
                        put(&mut e, 56, 4, *v & 0xffff_ffff);
                        if (*v >> 32) & 1 == 1 {
                            flags |= 1 << 2;
                        }
                    }
                    _ => unreachable!(),
                }
            }
            put(&mut e, 12, 4, flags);
            e
        }
        Op::Gicd { id, base, ver } => {
            let mut e = vec![0u8; 24];
            put(&mut e, 0, 1, 0xC);
            put(&mut e, 1, 1, 24);
            put(&mut e, 4, 4, *id as u64);
            put(&mut e, 8, 8, *base);
            put(&mut e, 20, 1, *ver as u64);
            e
        }
        Op::GicMsi { calls } => {
            let mut e = vec![0u8; 24];
            put(&mut e, 0, 1, 0xD);
            put(&mut e, 1, 1, 24);
            for (c, v) in calls {
                match c {
                    0 => put(&mut e, 4, 4, *v & 0xffff_ffff),
                    1 => put(&mut e, 8, 8, *v),
                    2 => {
                        put(&mut e, 20, 2, *v & 0xffff);
                        put(&mut e, 22, 2, (*v >> 16) & 0xffff);
                        put(&mut e, 16, 4, 1); // SPI Count/Base Select: values supplied
                    }
                    _ => unreachable!(),
                }
            }
            e
        }
        Op::Gicr { base, len } => {
            let mut e = vec![0u8; 16];
            put(&mut e, 0, 1, 0xE);
            put(&mut e, 1, 1, 16);
            put(&mut e, 4, 8, *base);
            put(&mut e, 12, 4, *len as u64);
            e
        }
        Op::Its { id, base } => {
            let mut e = vec![0u8; 20];
            put(&mut e, 0, 1, 0xF);
            put(&mut e, 1, 1, 20);
            put(&mut e, 4, 4, *id as u64);
            put(&mut e, 8, 8, *base);
            e
        }
        Op::Rintc { st, hart, uid, ext, imsic_base, imsic_size } => {
            let mut e = vec![0u8; 36];
            put(&mut e, 0, 1, 0x18);
            put(&mut e, 1, 1, 36);
            put(&mut e, 2, 1, 1);
            put(&mut e, 4, 4, *st as u64);
            put(&mut e, 8, 8, *hart);
            put(&mut e, 16, 4, *uid as u64);
            put(&mut e, 20, 4, *ext as u64);
            put(&mut e, 24, 8, *imsic_base);
            put(&mut e, 32, 4, *imsic_size as u64);
            e
        }
        Op::Imsic { s_ids, g_ids, guest_bits, hart_bits, group_bits, group_shift, .. } => {
            let mut e = vec![0u8; 16];
            put(&mut e, 0, 1, 0x19);
            put(&mut e, 1, 1, 16);
            put(&mut e, 2, 1, 1);
            put(&mut e, 8, 2, *s_ids as u64);
            put(&mut e, 10, 2, *g_ids as u64);
            put(&mut e, 12, 1, *guest_bits as u64);
            put(&mut e, 13, 1, *hart_bits as u64);
            put(&mut e, 14, 1, *group_bits as u64);
            put(&mut e, 15, 1, *group_shift as u64);
            e
        }
        Op::Aplic { id, hw, idcs, gsi, addr, size, sources } => {
            let mut e = vec![0u8; 36];
            put(&mut e, 0, 1, 0x1A);
            put(&mut e, 1, 1, 36);
            put(&mut e, 2, 1, 1);
            put(&mut e, 3, 1, *id as u64);
            put_bytes(&mut e, 8, hw);
            put(&mut e, 16, 2, *idcs as u64);
            put(&mut e, 18, 2, *sources as u64);
            put(&mut e, 20, 4, *gsi as u64);
            put(&mut e, 24, 8, *addr);
            put(&mut e, 32, 4, *size as u64);
            e
        }
        Op::Plic { id, hw, sources, max_prio, size, addr, gsi } => {
            let mut e = vec![0u8; 36];
            put(&mut e, 0, 1, 0x1B);
            put(&mut e, 1, 1, 36);
            put(&mut e, 2, 1, 1);
            put(&mut e, 3, 1, *id as u64);
            put_bytes(&mut e, 4, hw);
            put(&mut e, 12, 2, *sources as u64);
            put(&mut e, 14, 2, *max_prio as u64);
            put(&mut e, 20, 4, *size as u64);
            put(&mut e, 24, 8, *addr);
            put(&mut e, 32, 4, *gsi as u64);
            e
        }
        _ => unreachable!(),
    }
}

pub fn srat_entry(op: &Op) -> Vec<u8> {
    match op {
        Op::MemAff { pd, base, len, opts } => {
            let mut e = vec![0u8; 40];
            put(&mut e, 0, 1, 1);
            put(&mut e, 1, 1, 40);
            put(&mut e, 2, 4, *pd as u64);
            put(&mut e, 8, 4, *base & 0xffff_ffff);
            put(&mut e, 12, 4, *base >> 32);
            put(&mut e, 16, 4, *len & 0xffff_ffff);
            put(&mut e, 20, 4, *len >> 32);
            let mut f = 0u64;
            for o in opts {
                f |= 1 << *o; // 0 enabled, 1 hot pluggable, 2 non-volatile
            }
            put(&mut e, 28, 4, f);
            e
        }
        Op::GenInit { pd, handle, opts } => {
            let mut e = vec![0u8; 32];
            put(&mut e, 0, 1, 5);
            put(&mut e, 1, 1, 32);
            put(&mut e, 4, 4, *pd as u64);
            match handle {
                HandleArg::Acpi { hid, uid } => {
                    put(&mut e, 3, 1, 0);
                    put_bytes(&mut e, 8, hid);
                    put_bytes(&mut e, 16, uid);
                }
                HandleArg::Pci { seg, bus, dev, func, .. } => {
                    put(&mut e, 3, 1, 1);
                    put(&mut e, 8, 2, *seg as u64);
                    put(&mut e, 10, 1, *bus as u64);
                    put(&mut e, 11, 1, ((*dev as u64) << 3) | *func as u64);
                }
            }
            let mut f = 0u64;
            for o in opts {
                f |= 1 << *o; // 0 enabled, 1 architectural transactions
            }
            put(&mut e, 24, 4, f);
            e
        }
        Op::RintcAff { uid, clock, pd, opts } => {
            let mut e = vec![0u8; 20];
            put(&mut e, 0, 1, 7);
            put(&mut e, 1, 1, 20);
            put(&mut e, 4, 4, pd.unwrap_or(0) as u64);
            put_bytes(&mut e, 8, uid);
            let mut f = 0u64;
            for o in opts {
                f |= 1 << *o; // 0 enabled
            }
            put(&mut e, 12, 4, f);
            put(&mut e, 16, 4, *clock as u64);
            e
        }
        _ => unreachable!(),
    }
}

pub fn hmat_entry(op: &Op) -> Vec<u8> {
    match op {
        Op::Mpda { initiator, memory } => {
            let mut e = vec![0u8; 40];
            put(&mut e, 0, 2, 0);
            put(&mut e, 4, 4, 40);
            put(&mut e, 8, 2, 1); // initiator proximity domain valid
            put(&mut e, 12, 4, *initiator as u64);
            put(&mut e, 16, 4, *memory as u64);
            e
        }
        Op::Sllbi { loc, data, mts, base_unit, ni, nt, inits, targs, cells, flags } => {
            let len = 32 + 4 * ni + 4 * nt + 2 * ni * nt;
            let mut e = vec![0u8; len];
            put(&mut e, 0, 2, 1);
            put(&mut e, 4, 4, len as u64);
            let mut f = *loc as u64; // memory hierarchy in the low nibble
            for x in flags {
                f |= match x {
                    0 => 0x20, // non-sequential transfers
                    _ => 0x10, // minimum transfer size required
                };
            }
            put(&mut e, 8, 1, f);
            put(&mut e, 9, 1, *data as u64);
            put(&mut e, 10, 1, *mts as u64);
            put(&mut e, 12, 4, *ni as u64);
            put(&mut e, 16, 4, *nt as u64);
            put(&mut e, 24, 8, *base_unit);
            for (i, v) in inits {
                put(&mut e, 32 + 4 * i, 4, *v as u64);
            }
            for (j, v) in targs {
                put(&mut e, 32 + 4 * ni + 4 * j, 4, *v as u64);
            }
            let cell0 = 32 + 4 * ni + 4 * nt;
            for k in 0..ni * nt {
                put(&mut e, cell0 + 2 * k, 2, 0xFFFF);
            }
            for (i, j, v) in cells {
                put(&mut e, cell0 + 2 * (i * nt + j), 2, *v as u64);
            }
            e
        }
        Op::Msc { pd, size, total, level, assoc, policy, line, handles } => {
            let len = 32 + 2 * handles.len();
            let mut e = vec![0u8; len];
            put(&mut e, 0, 2, 2);
            put(&mut e, 4, 4, len as u64);
            put(&mut e, 8, 4, *pd as u64);
            put(&mut e, 16, 8, *size);
            let attr = (*total as u64) | ((*level as u64) << 4) | ((*assoc as u64) << 8) | ((*policy as u64) << 12) | ((*line as u64) << 16);
            put(&mut e, 24, 4, attr);
            put(&mut e, 30, 2, handles.len() as u64);
            for (k, h) in handles.iter().enumerate() {
                put(&mut e, 32 + 2 * k, 2, *h as u64);
            }
            e
        }
        _ => unreachable!(),
    }
}

pub fn notification(n: &NotifArg) -> Vec<u8> {
    let mut e = vec![0u8; 28];
    put(&mut e, 0, 1, n.ty as u64);
    put(&mut e, 1, 1, 28);
    for (s, v) in &n.sets {
        match s {
            0 => put(&mut e, 2, 2, *v as u64 & 0xffff),
            k => put(&mut e, 4 * (*k as usize), 4, *v as u64), // 1->4 .. 6->24
        }
    }
    e
}

pub fn hest_entry(op: &Op) -> Vec<u8> {
    match op {
        Op::Aer { kind, ctor, sets } => {
            let (ty, len) = match kind {
                0 => (6u64, 48usize),
                1 => (7, 44),
                _ => (8, 56),
            };
            let mut e = vec![0u8; len];
            put(&mut e, 0, 2, ty);
            match ctor {
                None => put(&mut e, 6, 1, 1 << 1), // GLOBAL
                Some((ff, bus, dev, func)) => {
                    put(&mut e, 6, 1, *ff as u64); // FIRMWARE_FIRST
                    put(&mut e, 16, 4, *bus as u64);
                    put(&mut e, 20, 2, *dev as u64);
                    put(&mut e, 22, 2, *func as u64);
                }
            }
            // setter index -> offset: 0 num_records@8 1 max_sections@12 2 device_control@24(w2)
            // 3 ue_mask@28 4 ue_sev@32 5 ce_mask@36 6 aer_cap@40 7 (root: root_error_command@44;
            // bridge: 2nd ue mask@44) 8 2nd ue sev@48 9 2nd aer cap@52
            for (s, v) in sets {
                let v = *v as u64;
                match s {
                    0 => put(&mut e, 8, 4, v),
                    1 => put(&mut e, 12, 4, v),
                    2 => put(&mut e, 24, 2, v & 0xffff),
                    3 => put(&mut e, 28, 4, v),
                    4 => put(&mut e, 32, 4, v),
                    5 => put(&mut e, 36, 4, v),
                    6 => put(&mut e, 40, 4, v),
                    7 => put(&mut e, 44, 4, v),
                    8 => put(&mut e, 48, 4, v),
                    9 => put(&mut e, 52, 4, v),
                    _ => unreachable!(),
                }
            }
            e
        }
        Op::Ghes { v2, source, enabled, sets, status, notif, ack } => {
            let len = if *v2 { 92 } else { 64 };
            let mut e = vec![0u8; len];
            put(&mut e, 0, 2, if *v2 { 10 } else { 9 });
            put(&mut e, 2, 2, *source as u64);
            put(&mut e, 4, 2, 0xFFFF);
            put(&mut e, 7, 1, *enabled as u64);
            for (s, v) in sets {
                match s {
                    0 => put(&mut e, 8, 4, *v & 0xffff_ffff),
                    1 => put(&mut e, 12, 4, *v & 0xffff_ffff),
                    2 => put(&mut e, 16, 4, *v & 0xffff_ffff),
                    5 => put(&mut e, 60, 4, *v & 0xffff_ffff),
                    7 => put(&mut e, 76, 8, *v),
                    8 => put(&mut e, 84, 8, *v),
                    _ => unreachable!(),
                }
            }
            if let Some(g) = status {
                put_bytes(&mut e, 20, &gas(g));
            }
            match notif {
                Some(n) => put_bytes(&mut e, 32, &notification(n)),
                // no notification supplied: a well-formed polled structure (type 0, length 28)
                None => put_bytes(&mut e, 32, &notification(&NotifArg { ty: 0, sets: vec![] })),
            }
            if let Some(g) = ack {
                put_bytes(&mut e, 64, &gas(g));
            }
            e
        }
        _ => unreachable!(),
    }
}

pub fn rqsc_resource(r: &RqscRes) -> Vec<u8> {
    let extra = match &r.id {
        RqscId::Cache(_) | RqscId::Acpi { .. } | RqscId::Pci(_) => 12,
        RqscId::Mem { .. } => 20,
        RqscId::Vendor(_, d) => d.len(),
    };
    let len = 8 + extra;
    let mut e = vec![0u8; len];
    put(&mut e, 0, 1, r.ty as u64);
    put(&mut e, 2, 2, len as u64);
    put(&mut e, 4, 2, r.flags as u64);
    match &r.id {
        RqscId::Cache(c) => {
            put(&mut e, 7, 1, 0);
            put(&mut e, 8, 4, *c as u64);
        }
        RqscId::Mem { pd, bw } => {
            put(&mut e, 7, 1, 1);
            put(&mut e, 8, 4, *pd as u64);
            put(&mut e, 20, 8, *bw);
        }
        RqscId::Acpi { hid, uid } => {
            put(&mut e, 7, 1, 2);
            put(&mut e, 8, 8, *hid);
            put(&mut e, 16, 4, *uid as u64);
        }
        RqscId::Pci(b) => {
            put(&mut e, 7, 1, 3);
            put(&mut e, 8, 4, *b as u64);
        }
        RqscId::Vendor(t, d) => {
            put(&mut e, 7, 1, *t as u64);
            put_bytes(&mut e, 8, d);
        }
    }
    e
}

pub fn rqsc_controller(op: &Op) -> Vec<u8> {
    if let Op::Controller { bandwidth, reg, rcid, mcid, flags, res } = op {
        let mut body = Vec::new();
        for r in res {
            body.extend_from_slice(&rqsc_resource(r));
        }
        let len = 28 + body.len();
        let mut e = vec![0u8; 28];
        put(&mut e, 0, 1, *bandwidth as u64);
        put(&mut e, 2, 2, len as u64);
        put_bytes(&mut e, 4, &gas(reg));
        put(&mut e, 16, 4, *rcid as u64);
        put(&mut e, 20, 4, *mcid as u64);
        put(&mut e, 24, 2, *flags as u64);
        put(&mut e, 26, 2, res.len() as u64);
        e.extend_from_slice(&body);
        e
    } else {
        unreachable!()
    }
}

/// ACPI 6.5 Table 18.13 Generic Error Data Entry (revision 0x300 layout): Section Type GUID 16 @0,
/// Error Severity 4 @16, Revision 2 @20, Validation Bits 1 @22, Flags 1 @23, Error Data Length 4 @24,
/// FRU Id 16 @28, FRU Text 20 @44, Timestamp 8 @64, data @72.
pub fn error_data(a: &ErrDataArg) -> Vec<u8> {
    let mut e = vec![0u8; 72];
    put_bytes(&mut e, 0, &a.section_type);
    put(&mut e, 16, 4, a.severity.min(3) as u64);
    put(&mut e, 20, 2, a.revision as u64);
    put(&mut e, 22, 1, a.validation as u64);
    put(&mut e, 23, 1, a.flags as u64);
    put(&mut e, 24, 4, a.error_data_length as u64);
    put_bytes(&mut e, 28, &a.fru_id);
    put_bytes(&mut e, 44, &a.fru_text);
    put_bytes(&mut e, 64, &a.timestamp);
    for g in &a.data {
        e.extend_from_slice(&gas(g));
    }
    e
}
