//! Workload generators for builder programs: seeded random, directed-hostile and boundary
//! sweeps. Everything generated here is inside the argument domain the specifications (and
//! the crate's own assertions) allow; out-of-domain inputs belong to the C18 engine.

use super::ops::*;
use super::real::{START_METHODS, WAYS_CODES};
use crate::prng::Rng;
use std::sync::OnceLock;

pub fn isa_pool() -> &'static [&'static str] {
    static POOL: OnceLock<Vec<&'static str>> = OnceLock::new();
    POOL.get_or_init(|| {
        let mut v: Vec<&'static str> = Vec::new();
        let base = "rv64imafdch_zicsr_zifencei_zba_zbb_zbc_zbs_sstc_svinval_svnapot_svpbmt_zicbom_zicbop_zicboz_";
        // strings whose byte length differs from their character count (multi-byte UTF-8)
        // … and strings that already carry a terminator (both parities of the byte length)
        for s in ["rv64\u{e9}", "\u{b5}", "rv64imafdc_\u{4e2d}\u{6587}", "\u{1f600}x", "ab\u{e9}cd\u{e9}", "rv64imafd\0", "rv64imafdc\0", "\0",
            // letters of both cases, and characters whose other-case form has a different UTF-8 length
            // (U+0130, Kelvin, Ohm, Angstrom, sharp s): any case folding on the way out changes bytes or sizes
            "RV64IMAFDCH_Zicsr_Zifencei_Zba_Zbb", "Rv32\u{130}mac", "rv64\u{212a}_z\u{2126}\u{212b}", "\u{df}rv64\u{df}", "RV64GC"] {
            v.push(Box::leak(s.to_string().into_boxed_str()));
        }
        for n in [0usize, 1, 2, 3, 4, 5, 10, 11, 62, 63, 64, 117, 118, 245, 246, 247, 248, 249, 300, 301, 1000, 1001] {
            let s: String = base.chars().cycle().take(n).collect();
            v.push(Box::leak(s.into_boxed_str()));
        }
        v
    })
}

#[derive(Default, Clone)]
pub struct GenState {
    pub procs: usize,
    pub caches: usize,
    pub isas: usize,
    pub cmos: usize,
    pub iommus: usize,
    pub viots: usize,
    pub has_imsic: bool,
    pub tpm2_logged: bool,
    pub slit_n: usize,
    pub bytes: usize,
    pub sdt_len: usize,
}

pub fn gen_hdr(r: &mut Rng) -> Hdr {
    let mode = r.below(4);
    match mode {
        0 => Hdr { oem_id: *b"VERIF ", oem_table_id: *b"VERIFTBL", oem_rev: 1 },
        1 => Hdr { oem_id: [0; 6], oem_table_id: [0; 8], oem_rev: 0 },
        2 => Hdr { oem_id: [0xff; 6], oem_table_id: [0xff; 8], oem_rev: u32::MAX },
        _ => Hdr { oem_id: r.bytes(), oem_table_id: r.bytes(), oem_rev: r.u32b() },
    }
}

pub fn gen_gas(r: &mut Rng) -> GasArg {
    GasArg { space: r.below(13) as u8, width: r.u8b(), offset: r.u8b(), access: r.below(5) as u8, addr: r.u64b() }
}

fn gen_bdf(r: &mut Rng) -> (u16, u8, u8, u8) {
    let rd = r.below(32) as u8;
    let rf = r.below(8) as u8;
    let dev = *r.pick(&[0u8, 1, 15, 30, 31, rd]);
    let func = *r.pick(&[0u8, 1, 6, 7, rf]);
    (r.u16b(), r.u8b(), dev, func)
}

/// Random sequence of option-builder calls over `n` options: any subset, order, repetition.
pub fn gen_opts(r: &mut Rng, n: u8) -> Vec<u8> {
    let len = match r.below(6) {
        0 => 0,
        1 => 1,
        2 => n as u64,
        _ => r.below(2 * n as u64 + 2),
    };
    (0..len).map(|_| r.below(n as u64) as u8).collect()
}

pub fn gen_ctor(kind: Kind, r: &mut Rng, st: &mut GenState) -> Ctor {
    match kind {
        Kind::Madt => Ctor::Madt(if r.chance(1, 3) { None } else { Some(r.u32b()) }),
        Kind::Slit => {
            let rn = r.below(40) as u32;
            let n = *r.pick(&[0u32, 1, 2, 3, 4, 5, 8, 15, 16, 17, 32, rn]);
            st.slit_n = n as usize;
            Ctor::Slit(n)
        }
        Kind::Rhct => Ctor::Rhct(r.u64b()),
        Kind::Bert => Ctor::Bert { len: r.u32b(), base: r.u64b() },
        Kind::TcpaClient => Ctor::TcpaClient { laml: r.u32b(), lasa: r.u64b() },
        Kind::Tpm2 => Ctor::Tpm2 { server: r.bool(), base: r.u64b(), start: *r.pick(&START_METHODS) },
        Kind::Sdt => {
            let rl = 36 + r.below(300) as u32;
            let near64k = 65520 + r.below(32) as u32;
            let len = if r.chance(1, 12) { near64k } else { *r.pick(&[36u32, 37, 40, 44, 64, 255, 256, 257, rl]) };
            st.sdt_len = len as usize;
            Ctor::Sdt { sig: r.bytes(), len, rev: r.u8b() }
        }
        Kind::Rsdp => Ctor::Rsdp { xsdt: r.u64b() },
        _ => Ctor::None,
    }
}

fn gen_maps(r: &mut Rng, st: &GenState, max: u64) -> Option<Vec<MapArg>> {
    if st.iommus == 0 {
        // no handle available: no mappings can be built
        return if r.bool() { None } else { Some(vec![]) };
    }
    match r.below(5) {
        0 => None,
        1 => Some(vec![]),
        _ => {
            let n = 1 + r.below(max);
            Some(
                (0..n)
                    .map(|_| MapArg { src: r.u32b(), dst: r.u32b(), num: r.u32b(), iommu: r.usize_below(st.iommus), ats: r.bool(), pri: r.bool(), rciep: r.bool() })
                    .collect(),
            )
        }
    }
}

fn small_or_big(r: &mut Rng, small: u64, big_choices: &[u64]) -> u64 {
    if r.chance(1, 12) {
        *r.pick(big_choices)
    } else {
        r.below(small + 1)
    }
}

/// Generate one in-domain operation for `kind`, or None when the table takes no (further) ops.
pub fn gen_op(kind: Kind, r: &mut Rng, st: &mut GenState) -> Option<Op> {
    let op = match kind {
        Kind::Xsdt => Op::XsdtEntry(r.u64b()),
        Kind::Mcfg => Op::McfgEcam { base: r.u64b(), seg: r.u16b(), start: r.u8b(), end: r.u8b() },
        Kind::Madt => match r.below(11) {
            0 => Op::Lapic { uid: r.u8b(), apic: r.u8b(), st: r.below(3) as u8 },
            1 => Op::IoApic { id: r.u8b(), addr: r.u32b(), gsi: r.u32b() },
            2 => {
                let n = r.below(8);
                let sets = (0..n)
                    .map(|_| {
                        let s = r.below(14) as u8;
                        let v = match s {
                            12 | 13 => (r.u32b() as u64) | ((r.bool() as u64) << 32),
                            0 | 1 | 2 => r.u32b() as u64,
                            9 => r.u8b() as u64,
                            10 | 11 => r.u16b() as u64,
                            _ => r.u64b(),
                        };
                        (s, v)
                    })
                    .collect();
                Op::Gicc { st: r.below(3) as u8, sets }
            }
            3 => Op::Gicd { id: r.u32b(), base: r.u64b(), ver: r.below(5) as u8 },
            4 => {
                let n = r.below(5);
                let calls = (0..n)
                    .map(|_| {
                        let c = r.below(3) as u8;
                        let v = match c {
                            0 => r.u32b() as u64,
                            1 => r.u64b(),
                            _ => (r.u16b() as u64) | ((r.u16b() as u64) << 16),
                        };
                        (c, v)
                    })
                    .collect();
                Op::GicMsi { calls }
            }
            5 => Op::Gicr { base: r.u64b(), len: r.u32b() },
            6 => Op::Its { id: r.u32b(), base: r.u64b() },
            7 => Op::Rintc { st: r.below(3) as u8, hart: r.u64b(), uid: r.u32b(), ext: r.u32b(), imsic_base: r.u64b(), imsic_size: r.u32b() },
            8 => {
                let via = !st.has_imsic && r.bool();
                if via {
                    st.has_imsic = true;
                }
                Op::Imsic { s_ids: r.u16b(), g_ids: r.u16b(), guest_bits: r.u8b(), hart_bits: r.u8b(), group_bits: r.u8b(), group_shift: r.u8b(), via_add_imsic: via }
            }
            9 => Op::Aplic { id: r.u8b(), hw: r.bytes(), idcs: r.u16b(), gsi: r.u32b(), addr: r.u64b(), size: r.u32b(), sources: r.u16b() },
            _ => Op::Plic { id: r.u8b(), hw: r.bytes(), sources: r.u16b(), max_prio: r.u16b(), size: r.u32b(), addr: r.u64b(), gsi: r.u32b() },
        },
        Kind::Srat => match r.below(4) {
            0 => Op::MemAff { pd: r.u32b(), base: r.u64b(), len: r.u64b(), opts: gen_opts(r, 3) },
            1 => Op::GenInit { pd: r.u32b(), handle: HandleArg::Acpi { hid: r.bytes(), uid: r.bytes() }, opts: gen_opts(r, 2) },
            2 => {
                let (seg, bus, dev, func) = gen_bdf(r);
                Op::GenInit { pd: r.u32b(), handle: HandleArg::Pci { seg, bus, dev, func, ctor: r.bool() }, opts: gen_opts(r, 2) }
            }
            _ => Op::RintcAff { uid: r.bytes(), clock: r.u32b(), pd: if r.bool() { Some(r.u32b()) } else { None }, opts: gen_opts(r, 1) },
        },
        Kind::Slit => {
            if st.slit_n == 0 {
                return None;
            }
            let n = st.slit_n;
            let a = r.usize_below(n);
            let b = match r.below(4) {
                0 => a, // diagonal
                _ => r.usize_below(n),
            };
            Op::SlitSet { a, b, v: r.u8b() }
        }
        Kind::Hmat => match r.below(3) {
            0 => Op::Mpda { initiator: r.u32b(), memory: r.u32b() },
            1 => {
                // occasionally a structure larger than 64 KiB (its length field is 32 bits wide)
                let huge = r.chance(1, 60);
                let ni = if huge { 150 + r.usize_below(80) } else { small_or_big(r, 4, &[7, 12]) as usize };
                let nt = if huge { 150 + r.usize_below(80) } else { small_or_big(r, 4, &[6, 11]) as usize };
                let inits = (0..r.below(ni as u64 + 1)).map(|_| (r.usize_below(ni), r.u32b())).collect();
                let targs = (0..r.below(nt as u64 + 1)).map(|_| (r.usize_below(nt), r.u32b())).collect();
                let cells = if ni * nt > 0 { (0..r.below(2 * (ni * nt) as u64 + 1)).map(|_| (r.usize_below(ni), r.usize_below(nt), r.u16b())).collect() } else { vec![] };
                Op::Sllbi { loc: r.below(4) as u8, data: r.below(6) as u8, mts: r.below(12) as u8, base_unit: r.u64b(), ni, nt, inits, targs, cells, flags: gen_opts(r, 2) }
            }
            _ => {
                let nh = small_or_big(r, 5, &[111, 112, 113, 300, 32751, 32752, 32753, 65535]);
                Op::Msc {
                    pd: r.u32b(),
                    size: r.u64b(),
                    total: r.below(4) as u8,
                    level: r.below(4) as u8,
                    assoc: r.below(3) as u8,
                    policy: r.below(3) as u8,
                    line: r.u16b(),
                    handles: (0..nh).map(|_| r.u16b()).collect(),
                }
            }
        },
        Kind::Pptt => {
            if r.bool() {
                let n = r.below(12);
                let mut calls = Vec::new();
                // enumerated attributes keep one value per node: repeating such a builder with a
                // conflicting value is outside what the properties state
                let enum_vals = [r.below(3) as u32, r.below(3) as u32, r.below(2) as u32];
                for _ in 0..n {
                    let c = r.below(9) as u8;
                    let v = match c {
                        0 => {
                            if st.caches == 0 {
                                continue;
                            }
                            r.below(st.caches as u64) as u32
                        }
                        3 => r.u8b() as u32,
                        4 | 5 | 6 => enum_vals[(c - 4) as usize],
                        7 => r.u16b() as u32,
                        _ => r.u32b(),
                    };
                    calls.push((c, v));
                }
                st.caches += 1;
                Op::Cache { calls }
            } else {
                let nc = if st.caches == 0 { 0 } else { small_or_big(r, 4, &[57, 58]) };
                let caches = (0..nc).map(|_| r.usize_below(st.caches)).collect();
                let parent = if st.procs > 0 && r.bool() { Some(r.usize_below(st.procs)) } else { None };
                st.procs += 1;
                Op::Proc { parent, id: r.u32b(), caches, flag_calls: gen_opts(r, 5) }
            }
        }
        Kind::Rhct => match r.below(4) {
            0 => {
                st.isas += 1;
                let pool = isa_pool();
                // the very long strings only occasionally
                let s = if r.chance(1, 20) { pool[pool.len() - 1 - r.usize_below(4)] } else { pool[r.usize_below(pool.len() - 4)] };
                Op::Isa { s }
            }
            1 => Op::Mmu { scheme: r.below(3) as u8 },
            2 => {
                st.cmos += 1;
                Op::Cmo { cbom: r.u8b(), cbop: r.u8b(), cboz: r.u8b() }
            }
            _ => {
                if st.isas == 0 {
                    st.isas += 1;
                    Op::Isa { s: isa_pool()[r.usize_below(13)] }
                } else {
                    let nc = if st.cmos == 0 { 0 } else { small_or_big(r, 3, &[59, 60, 61, 62]) };
                    Op::HartInfo { uid: r.u32b(), isa: r.usize_below(st.isas), cmos: (0..nc).map(|_| r.usize_below(st.cmos)).collect() }
                }
            }
        },
        Kind::Rimt => match r.below(3) {
            0 => {
                st.iommus += 1;
                let wires = match r.below(4) {
                    0 => None,
                    1 => Some(vec![]),
                    _ => {
                        let n = small_or_big(r, 4, &[27, 28, 29]);
                        Some((0..n).map(|_| WireArg { num: r.u32b(), level: r.bool(), high: r.bool(), aplic: r.u16b() }).collect())
                    }
                };
                Op::Iommu {
                    id: r.u16b(),
                    base: if r.bool() { Some(r.u64b()) } else { None },
                    pci: if r.bool() { Some(gen_bdf(r)) } else { None },
                    pd: if r.bool() { Some(r.u32b()) } else { None },
                    wires,
                }
            }
            1 => {
                let mx = if r.chance(1, 10) { 13 } else { 3 };
                Op::RootComplex { id: r.u16b(), seg: r.u16b(), ats: r.bool(), pri: r.bool(), maps: gen_maps(r, st, mx) }
            }
            _ => {
                let nl = small_or_big(r, 12, &[242, 243, 244, 245]);
                let lower = r.chance(1, 3);
                let mut name: String = (0..nl).map(|_| ((if lower && r.bool() { b'a' } else { b'A' }) + r.below(26) as u8) as char).collect();
                match r.below(26) {
                    24 => name.push('\u{130}'),   // case folding changes the byte length
                    25 => name.insert(0, '\u{212a}'),
                    0 => name.push('\u{e9}'),     // multi-byte character: byte length != character count
                    1 => name.insert(0, '\u{4e2d}'),
                    2 => name.push('\0'),          // caller-supplied terminator
                    _ => {}
                }
                Op::Platform { id: r.u16b(), name, maps: gen_maps(r, st, 3) }
            }
        },
        Kind::Viot => {
            if st.bytes + 24 > 65535 - 48 {
                return None;
            }
            let c = if st.viots == 0 { r.below(2) } else { r.below(4) };
            match c {
                0 => {
                    st.viots += 1;
                    st.bytes += 16;
                    let (seg, bus, dev, func) = gen_bdf(r);
                    Op::ViotPciIommu { seg, bus, dev, func }
                }
                1 => {
                    st.viots += 1;
                    st.bytes += 16;
                    Op::ViotMmioIommu { base: r.u64b() }
                }
                2 => {
                    st.bytes += 24;
                    Op::ViotPciRange { first: gen_bdf(r), last: gen_bdf(r), handle: r.usize_below(st.viots) }
                }
                _ => {
                    st.bytes += 24;
                    Op::ViotMmioEp { ep: r.u32b(), base: r.u64b(), handle: r.usize_below(st.viots) }
                }
            }
        }
        Kind::Cedt => match r.below(4) {
            0 => Op::Chbs { uid: r.u32b(), v2: r.bool(), base: r.u64b() },
            1 => {
                let (code, n) = *r.pick(&WAYS_CODES);
                Op::Cfmws {
                    base: r.u64b(),
                    size: r.u64b(),
                    arith: r.below(2) as u8,
                    gran: r.below(7) as u8,
                    ways: code,
                    qtg: r.u16b(),
                    targets: (0..n).map(|_| r.bytes()).collect(),
                    opts: gen_opts(r, 5),
                }
            }
            2 => {
                let n = small_or_big(r, 4, &[30, 31, 32, 254, 255]);
                Op::Cxims { gran: r.below(7) as u8, maps: (0..n).map(|_| r.u64b()).collect() }
            }
            _ => {
                let (seg, bus, dev, func) = gen_bdf(r);
                Op::Rdpas { seg, bus, dev, func, mem: r.bool(), base: r.u64b() }
            }
        },
        Kind::Hest => match r.below(5) {
            k @ 0..=2 => {
                let kind = k as u8;
                let nset = match kind {
                    0 => 8,
                    1 => 7,
                    _ => 10,
                };
                let ctor = if r.chance(1, 3) { None } else { Some((r.bool(), r.u8b(), r.below(32) as u8, r.below(8) as u8)) };
                let sets = (0..r.below(6)).map(|_| (r.below(nset) as u8, r.u32b())).collect();
                Op::Aer { kind, ctor, sets }
            }
            k => {
                let v2 = k == 4;
                let choices: &[u8] = if v2 { &[0, 1, 2, 5, 7, 8] } else { &[0, 1, 2, 5] };
                let sets = (0..r.below(6))
                    .map(|_| {
                        let s = *r.pick(choices);
                        (s, if s >= 7 { r.u64b() } else { r.u32b() as u64 })
                    })
                    .collect();
                let notif = if r.chance(2, 3) {
                    Some(NotifArg {
                        ty: r.below(16) as u8,
                        sets: (0..r.below(6))
                            .map(|_| {
                                let s = r.below(7) as u8;
                                (s, if s == 0 { r.u16b() as u32 } else { r.u32b() })
                            })
                            .collect(),
                    })
                } else {
                    None
                };
                Op::Ghes {
                    v2,
                    source: r.u16b(),
                    enabled: r.bool(),
                    sets,
                    status: if r.bool() { Some(gen_gas(r)) } else { None },
                    notif,
                    ack: if v2 && r.bool() { Some(gen_gas(r)) } else { None },
                }
            }
        },
        Kind::Rqsc => {
            let nres = small_or_big(r, 4, &[8, 9, 10]);
            let res = (0..nres)
                .map(|_| {
                    let id = match r.below(5) {
                        0 => RqscId::Cache(r.u32b()),
                        1 => RqscId::Mem { pd: r.u32b(), bw: r.u64b() },
                        2 => RqscId::Acpi { hid: r.u64b(), uid: r.u32b() },
                        3 => RqscId::Pci(r.u32b()),
                        _ => {
                            let n = small_or_big(r, 16, &[247, 248, 249]) as usize;
                            // mostly codes outside the standard 0..=3, sometimes one of them
                            let code = if r.chance(1, 6) { r.below(4) as u8 } else { 4 + r.below(252) as u8 };
                            RqscId::Vendor(code, r.byte_vec(n))
                        }
                    };
                    RqscRes { ty: r.below(2) as u8, flags: r.u16b(), id }
                })
                .collect();
            Op::Controller { bandwidth: r.bool(), reg: gen_gas(r), rcid: r.u32b(), mcid: r.u32b(), flags: r.u16b(), res }
        }
        Kind::Tpm2 => {
            if st.tpm2_logged {
                return None;
            }
            st.tpm2_logged = true;
            Op::Tpm2LogArea { min_len: r.u32b(), base: r.u64b() }
        }
        Kind::TcpaServer => {
            let call = r.below(9) as u8;
            let (a, b, gas) = match call {
                0 => (r.u64b(), r.u64b(), None),
                3 => (r.u8b() as u64, 0, None),
                4 => (r.u32b() as u64, 0, None),
                6 => ((r.u8b() as u64) | ((r.u8b() as u64) << 8) | (r.below(32) << 16) | (r.below(8) << 24), 0, None),
                7 | 8 => (0, 0, Some(gen_gas(r))),
                _ => (0, 0, None),
            };
            Op::Tcpa { call, a, b, gas }
        }
        Kind::Fadt => {
            let call = r.below(9) as u8;
            let (a, b, c) = match call {
                0 | 2 => (r.u32b() as u64, 0, 0),
                1 | 3 => (r.u64b(), 0, 0),
                6 => (r.below(25), 0, 0),
                7 => (r.u32b() as u64, r.u32b() as u64, r.below(1 << 24)),
                8 => (r.below(9), 0, 0),
                _ => (0, 0, 0),
            };
            Op::Fadt { call, a, b, c }
        }
        Kind::Sdt => {
            let len = st.sdt_len;
            let o = match r.below(18) {
                0 => SdtOp::AppendU8(r.u8b()),
                1 => SdtOp::AppendU16(r.u16b()),
                2 => SdtOp::AppendU32(r.u32b()),
                3 => SdtOp::AppendU64(r.u64b()),
                4 => {
                    let n = small_or_big(r, 9, &[0, 219, 220, 221, 70_000]) as usize;
                    SdtOp::AppendSlice(r.byte_vec(n))
                }
                5 => SdtOp::AppendArr3(r.bytes()),
                6 => SdtOp::SinkByte(r.u8b()),
                7 => SdtOp::SinkWord(r.u16b()),
                8 => SdtOp::SinkDword(r.u32b()),
                9 => SdtOp::SinkQword(r.u64b()),
                10 => {
                    let n = r.usize_below(12);
                    SdtOp::SinkVec(r.byte_vec(n))
                }
                11 => SdtOp::UpdateChecksum,
                k => {
                    // in-range writes, never touching the Length field (bytes 4..8): those are
                    // the caller supplying Length and are judged by C13, not C01/C02
                    let w = match k {
                        12 => 1,
                        13 => 2,
                        14 => 4,
                        15 => 8,
                        16 => 3,
                        _ => r.usize_below(10),
                    };
                    if w > len {
                        return Some(Op::Sdt(SdtOp::UpdateChecksum));
                    }
                    let ro = r.usize_below(len - w + 1);
                    let mut off = *r.pick(&[0usize, 8, 9, 10, 35, len - w, ro]);
                    if off > len - w {
                        off = len - w;
                    }
                    if w > 0 && off < 8 && off + w > 4 {
                        off = 8.min(len - w);
                        if off < 8 {
                            return Some(Op::Sdt(SdtOp::UpdateChecksum));
                        }
                    }
                    match k {
                        12 => SdtOp::WriteU8(off, r.u8b()),
                        13 => SdtOp::WriteU16(off, r.u16b()),
                        14 => SdtOp::WriteU32(off, r.u32b()),
                        15 => SdtOp::WriteU64(off, r.u64b()),
                        16 => SdtOp::WriteArr3(off, r.bytes()),
                        _ => SdtOp::WriteBytes(off, r.byte_vec(w)),
                    }
                }
            };
            st.sdt_len += match &o {
                SdtOp::AppendU8(_) | SdtOp::SinkByte(_) => 1,
                SdtOp::AppendU16(_) | SdtOp::SinkWord(_) => 2,
                SdtOp::AppendU32(_) | SdtOp::SinkDword(_) => 4,
                SdtOp::AppendU64(_) | SdtOp::SinkQword(_) => 8,
                SdtOp::AppendArr3(_) => 3,
                SdtOp::AppendSlice(v) | SdtOp::SinkVec(v) => v.len(),
                _ => 0,
            };
            Op::Sdt(o)
        }
        Kind::Bert | Kind::Spcr | Kind::TcpaClient | Kind::Rsdp | Kind::Facs => return None,
    };
    Some(op)
}

pub fn gen_prog(kind: Kind, r: &mut Rng, max_ops: u64) -> Prog {
    let mut st = GenState::default();
    let hdr = gen_hdr(r);
    let ctor = gen_ctor(kind, r, &mut st);
    let n = match r.below(8) {
        0 => 0,
        1 => 1,
        2 => 2,
        _ => r.below(max_ops + 1),
    };
    let mut ops = Vec::new();
    for _ in 0..n {
        match gen_op(kind, r, &mut st) {
            Some(o) => ops.push(o),
            None => break,
        }
    }
    Prog { kind, hdr, ctor, ops }
}

/// The smallest entry each table accepts, for long sweeps across count/length carries.
pub fn sweep_op(kind: Kind, r: &mut Rng, st: &mut GenState, i: u64) -> Option<Op> {
    Some(match kind {
        Kind::Xsdt => Op::XsdtEntry(r.next_u64()),
        Kind::Mcfg => Op::McfgEcam { base: r.next_u64(), seg: i as u16, start: 0, end: 255 },
        Kind::Madt => Op::Lapic { uid: i as u8, apic: (i >> 8) as u8, st: (i % 3) as u8 },
        Kind::Srat => Op::RintcAff { uid: (i as u32).to_le_bytes(), clock: r.next_u64() as u32, pd: Some(i as u32), opts: vec![0] },
        Kind::Hmat => Op::Msc { pd: i as u32, size: r.next_u64(), total: 1, level: 1, assoc: 1, policy: 1, line: 64, handles: vec![] },
        Kind::Pptt => {
            st.caches += 1;
            Op::Cache { calls: vec![(8, i as u32)] }
        }
        Kind::Rhct => Op::Mmu { scheme: (i % 3) as u8 },
        Kind::Rimt => Op::RootComplex { id: i as u16, seg: (i >> 16) as u16, ats: i & 1 == 1, pri: i & 2 == 2, maps: None },
        Kind::Viot => {
            if st.bytes + 16 > 65535 - 48 {
                return None;
            }
            st.bytes += 16;
            st.viots += 1;
            Op::ViotMmioIommu { base: r.next_u64() }
        }
        Kind::Cedt => Op::Cxims { gran: (i % 7) as u8, maps: vec![] },
        Kind::Hest => Op::Aer { kind: 1, ctor: None, sets: vec![(0, i as u32)] },
        Kind::Rqsc => Op::Controller { bandwidth: i & 1 == 1, reg: GasArg { space: 0, width: 64, offset: 0, access: 4, addr: r.next_u64() }, rcid: i as u32, mcid: 0, flags: 0, res: vec![] },
        Kind::Sdt => Op::Sdt(match i % 8 {
            0 => SdtOp::SinkByte(r.next_u64() as u8),
            1 => SdtOp::AppendU8(r.next_u64() as u8),
            2 => SdtOp::AppendU16(r.next_u64() as u16),
            3 => SdtOp::AppendU32(r.next_u64() as u32),
            4 => SdtOp::AppendU64(r.next_u64()),
            5 => SdtOp::SinkDword(r.next_u64() as u32),
            6 => {
                let n = 1 + r.usize_below(24);
                SdtOp::AppendSlice(r.byte_vec(n))
            }
            _ => SdtOp::AppendArr3(r.bytes()),
        }),
        _ => return None,
    })
}

/// Byte size of the smallest entry, used to size sweeps.
pub fn sweep_entry_size(kind: Kind) -> usize {
    match kind {
        Kind::Xsdt => 8,
        Kind::Mcfg => 16,
        Kind::Madt => 8,
        Kind::Srat => 20,
        Kind::Hmat => 32,
        Kind::Pptt => 28,
        Kind::Rhct => 8,
        Kind::Rimt => 16,
        Kind::Viot => 16,
        Kind::Cedt => 8,
        Kind::Hest => 44,
        Kind::Rqsc => 28,
        Kind::Sdt => 6,
        _ => 0,
    }
}

pub fn gen_error_data(r: &mut Rng) -> ErrDataArg {
    let mut section_type = [0u8; 16];
    let mut fru_id = [0u8; 16];
    let mut fru_text = [0u8; 20];
    let mut timestamp = [0u8; 8];
    for b in section_type.iter_mut().chain(fru_id.iter_mut()).chain(fru_text.iter_mut()).chain(timestamp.iter_mut()) {
        *b = r.u8b();
    }
    // make sure the section type is not confined to its first two bytes
    section_type[2 + r.usize_below(14)] |= 1 << r.below(8);
    ErrDataArg {
        section_type,
        severity: r.below(4) as u8,
        revision: r.u16b(),
        validation: r.u8b(),
        flags: r.u8b(),
        error_data_length: r.u32b(),
        fru_id,
        fru_text,
        timestamp,
        data: (0..r.below(4)).map(|_| gen_gas(r)).collect(),
    }
}
