//! Independent body walkers (C03): start at the specification's first-entry offset, step by
//! each entry's own length field (or the fixed size the specification assigns to its type),
//! and check every summary field against what the walk finds. Works on the observed image
//! only; knows nothing about how the crate produced it.

use super::ops::Kind;
use super::reference::get;

#[derive(Clone, Debug, PartialEq)]
pub struct Walked {
    /// (offset, length stepped, type code; u64::MAX when entries carry no type)
    pub entries: Vec<(usize, usize, u64)>,
    /// number of times the F10 deviation model (RDPAS declares 16, occupies 17) was applied
    pub rdpas_deviations: usize,
}

pub fn first_entry(kind: Kind) -> usize {
    match kind {
        Kind::Xsdt | Kind::Pptt | Kind::Cedt => 36,
        Kind::Mcfg | Kind::Madt | Kind::Slit => 44,
        Kind::Srat | Kind::Rimt | Kind::Viot => 48,
        Kind::Hmat | Kind::Hest | Kind::Rqsc => 40,
        Kind::Rhct => 56,
        _ => usize::MAX,
    }
}

/// `rdpas_at`: offsets at which the caller added an RDPAS entry and the known finding F10 is
/// listed; only there may the walker step 17 for a type-3 record that declares 16.
pub fn walk(kind: Kind, img: &[u8], rdpas_at: &[usize]) -> Result<Walked, String> {
    let mut w = Walked { entries: Vec::new(), rdpas_deviations: 0 };
    let first = first_entry(kind);
    if img.len() < first {
        return Err(format!("image of {} bytes is shorter than the first-entry offset {}", img.len(), first));
    }
    if kind == Kind::Slit {
        let n = get(img, 36, 8);
        let body = (img.len() - 44) as u64;
        if n.checked_mul(n) != Some(body) {
            return Err(format!("SLIT locality count {} squared is not the {} matrix bytes present", n, body));
        }
        return Ok(w);
    }
    let mut off = first;
    while off < img.len() {
        let rem = img.len() - off;
        let need = |n: usize| -> Result<(), String> {
            if rem < n {
                Err(format!("entry header at {} needs {} bytes but only {} remain", off, n, rem))
            } else {
                Ok(())
            }
        };
        let (ty, len): (u64, usize) = match kind {
            Kind::Xsdt => (u64::MAX, 8),
            Kind::Mcfg => (u64::MAX, 16),
            Kind::Madt | Kind::Srat | Kind::Pptt => {
                need(2)?;
                (img[off] as u64, img[off + 1] as usize)
            }
            Kind::Hmat => {
                need(8)?;
                (get(img, off, 2), get(img, off + 4, 4) as usize)
            }
            Kind::Rhct => {
                need(4)?;
                (get(img, off, 2), get(img, off + 2, 2) as usize)
            }
            Kind::Rimt | Kind::Viot | Kind::Cedt | Kind::Rqsc => {
                need(4)?;
                let mut l = get(img, off + 2, 2) as usize;
                if kind == Kind::Cedt && img[off] == 3 && l == 16 && rdpas_at.contains(&off) {
                    l = 17;
                    w.rdpas_deviations += 1;
                }
                (img[off] as u64, l)
            }
            Kind::Hest => {
                need(2)?;
                let t = get(img, off, 2);
                let l = match t {
                    6 => 48,
                    7 => 44,
                    8 => 56,
                    9 => 64,
                    10 => 92,
                    _ => return Err(format!("HEST source at {} has unknown type {}", off, t)),
                };
                (t, l)
            }
            _ => return Err("not a table with a body".into()),
        };
        if len == 0 {
            return Err(format!("entry at {} (type {:#x}) declares length 0", off, ty));
        }
        if len > rem {
            return Err(format!("entry at {} (type {:#x}) declares length {} but only {} bytes remain", off, ty, len, rem));
        }
        w.entries.push((off, len, ty));
        off += len;
    }
    Ok(w)
}

fn eq(what: &str, off: usize, found: u64, expect: u64) -> Result<(), String> {
    if found != expect {
        Err(format!("{} at offset {}: field says {}, walk finds {}", what, off, found, expect))
    } else {
        Ok(())
    }
}

/// Check every summary / count / offset / per-type length field against the walk.
pub fn check_summaries(kind: Kind, img: &[u8], w: &Walked) -> Result<(), String> {
    let n = w.entries.len() as u64;
    match kind {
        Kind::Rhct => {
            eq("RHCT node count", 48, get(img, 48, 4), n)?;
            eq("RHCT node array offset", 52, get(img, 52, 4), 56)?;
        }
        Kind::Rimt => {
            eq("RIMT device count", 36, get(img, 36, 4), n)?;
            eq("RIMT device array offset", 40, get(img, 40, 4), 48)?;
        }
        Kind::Viot => {
            eq("VIOT node count", 36, get(img, 36, 2), n)?;
            eq("VIOT node offset", 38, get(img, 38, 2), 48)?;
        }
        Kind::Hest => eq("HEST error source count", 36, get(img, 36, 4), n)?,
        Kind::Rqsc => eq("RQSC controller count", 36, get(img, 36, 4), n)?,
        _ => {}
    }
    for &(off, len, ty) in &w.entries {
        let e = &img[off..off + len];
        let fixed = |want: usize| -> Result<(), String> {
            if len != want {
                Err(format!("{:?} entry type {:#x} at {} has length {}, specification size is {}", kind, ty, off, len, want))
            } else {
                Ok(())
            }
        };
        let min = |want: usize| -> Result<(), String> {
            if len < want {
                Err(format!("{:?} entry type {:#x} at {} has length {} < fixed part {}", kind, ty, off, len, want))
            } else {
                Ok(())
            }
        };
        match kind {
            Kind::Madt => match ty {
                0 => fixed(8)?,
                1 => fixed(12)?,
                0xB => fixed(82)?,
                0xC => fixed(24)?,
                0xD => fixed(24)?,
                0xE => fixed(16)?,
                0xF => fixed(20)?,
                0x18 => fixed(36)?,
                0x19 => fixed(16)?,
                0x1A => fixed(36)?,
                0x1B => fixed(36)?,
                _ => return Err(format!("MADT entry at {} has unexpected type {:#x}", off, ty)),
            },
            Kind::Srat => match ty {
                1 => fixed(40)?,
                5 => fixed(32)?,
                7 => fixed(20)?,
                _ => return Err(format!("SRAT entry at {} has unexpected type {:#x}", off, ty)),
            },
            Kind::Hmat => match ty {
                0 => fixed(40)?,
                1 => {
                    min(32)?;
                    let i = get(e, 12, 4);
                    let t = get(e, 16, 4);
                    eq("HMAT SLLBI length vs initiator/target counts", off + 4, len as u64, 32 + 4 * i + 4 * t + 2 * i * t)?;
                }
                2 => {
                    min(32)?;
                    let h = get(e, 30, 2);
                    eq("HMAT side-cache length vs SMBIOS handle count", off + 4, len as u64, 32 + 2 * h)?;
                }
                _ => return Err(format!("HMAT entry at {} has unexpected type {:#x}", off, ty)),
            },
            Kind::Pptt => match ty {
                0 => {
                    min(20)?;
                    let r = get(e, 16, 4);
                    eq("PPTT processor length vs private resource count", off + 1, len as u64, 20 + 4 * r)?;
                }
                1 => fixed(28)?,
                _ => return Err(format!("PPTT entry at {} has unexpected type {:#x}", off, ty)),
            },
            Kind::Rhct => match ty {
                0 => {
                    min(8)?;
                    let s = get(e, 6, 2) as usize;
                    if s == 0 {
                        return Err(format!("RHCT ISA node at {} has string length 0", off));
                    }
                    let padded = 8 + s + (s & 1);
                    eq("RHCT ISA node length vs string length + padding", off + 2, len as u64, padded as u64)?;
                    // the terminating NUL is the last counted byte (a string that itself ends in NUL
                    // bytes just pads the field; interior NULs are outside the domain)
                    if e[8 + s - 1] != 0 {
                        return Err(format!("RHCT ISA node at {}: string length field {} but byte {} is not the NUL terminator", off, s, 8 + s - 1));
                    }
                    if e[8 + s..].iter().any(|b| *b != 0) {
                        return Err(format!("RHCT ISA node at {}: non-zero padding", off));
                    }
                }
                1 => fixed(10)?,
                2 => fixed(8)?,
                0xFFFF => {
                    min(12)?;
                    let k = get(e, 6, 2);
                    eq("RHCT hart-info length vs offset count", off + 2, len as u64, 12 + 4 * k)?;
                }
                _ => return Err(format!("RHCT node at {} has unexpected type {:#x}", off, ty)),
            },
            Kind::Rimt => match ty {
                0 => {
                    min(32)?;
                    let wn = get(e, 28, 2);
                    eq("RIMT IOMMU wire array offset", off + 30, get(e, 30, 2), 32)?;
                    eq("RIMT IOMMU length vs wire count", off + 2, len as u64, 32 + 8 * wn)?;
                }
                1 => {
                    min(16)?;
                    let m = get(e, 14, 2);
                    eq("RIMT root-complex mapping array offset", off + 12, get(e, 12, 2), 16)?;
                    eq("RIMT root-complex length vs mapping count", off + 2, len as u64, 16 + 20 * m)?;
                }
                2 => {
                    min(13)?;
                    let m = get(e, 10, 2);
                    let mo = get(e, 8, 2) as usize;
                    // the name field [12, mapping offset) must end with its NUL terminator (a name that
                    // itself ends in NUL bytes simply pads the field)
                    if mo < 13 || mo > len || e[mo - 1] != 0 {
                        return Err(format!("RIMT platform node at {}: mapping offset {} is not preceded by the name's NUL terminator", off, mo));
                    }
                    let first_nul = e[12..mo].iter().position(|b| *b == 0).map(|p| 12 + p).unwrap_or(mo - 1);
                    if e[first_nul..mo].iter().any(|b| *b != 0) && e[12..mo - 1].iter().filter(|b| **b == 0).count() == 0 {
                        return Err(format!("RIMT platform node at {}: bytes after the name terminator are not zero", off));
                    }
                    eq("RIMT platform length vs mapping count", off + 2, len as u64, (mo as u64) + 20 * m)?;
                }
                _ => return Err(format!("RIMT device at {} has unexpected type {:#x}", off, ty)),
            },
            Kind::Viot => match ty {
                1 | 2 => fixed(24)?,
                3 | 4 => fixed(16)?,
                _ => return Err(format!("VIOT node at {} has unexpected type {:#x}", off, ty)),
            },
            Kind::Cedt => match ty {
                0 => fixed(32)?,
                1 => {
                    min(36)?;
                    let eniw = e[24];
                    let ways = match eniw {
                        0 => 1,
                        1 => 2,
                        2 => 4,
                        3 => 8,
                        4 => 16,
                        8 => 3,
                        9 => 6,
                        10 => 12,
                        _ => return Err(format!("CFMWS at {} has unknown ENIW {}", off, eniw)),
                    };
                    eq("CFMWS length vs interleave ways", off + 2, len as u64, 36 + 4 * ways)?;
                }
                2 => {
                    min(8)?;
                    eq("CXIMS length vs bitmap count", off + 2, len as u64, 8 + 8 * e[7] as u64)?;
                }
                3 => {
                    if len != 17 && len != 16 {
                        return Err(format!("RDPAS at {} has length {}", off, len));
                    }
                }
                _ => return Err(format!("CEDT structure at {} has unexpected type {:#x}", off, ty)),
            },
            Kind::Hest => {
                if ty == 9 || ty == 10 {
                    if e[32] > 15 {
                        return Err(format!("GHES at {}: notification type {} out of range", off, e[32]));
                    }
                    eq("GHES notification structure length", off + 33, e[33] as u64, 28)?;
                }
            }
            Kind::Rqsc => {
                min(28)?;
                let cnt = get(e, 26, 2);
                let mut o = 28usize;
                let mut found = 0u64;
                while o < len {
                    if len - o < 8 {
                        return Err(format!("RQSC controller at {}: resource header at +{} truncated", off, o));
                    }
                    let rl = get(e, o + 2, 2) as usize;
                    if rl < 8 || rl > len - o {
                        return Err(format!("RQSC controller at {}: resource at +{} declares length {} ({} remain)", off, o, rl, len - o));
                    }
                    // (the resource's own length field is what frames it; a vendor-specific id may
                    // carry any payload size under any type code, so no per-type size is imposed here —
                    // the per-type layouts are C04's business)
                    found += 1;
                    o += rl;
                }
                eq("RQSC controller resource count", off + 26, cnt, found)?;
            }
            _ => {}
        }
    }
    Ok(())
}
