//! Abstract builder programs: what the workload asks the crate to build, in a form that
//! both the real-crate interpreter (`real.rs`) and the specification-derived reference
//! encoder (`reference.rs`) consume independently.

#[derive(Clone, Copy, Debug, PartialEq, Eq, Hash, PartialOrd, Ord)]
pub enum Kind {
    Xsdt,
    Mcfg,
    Madt,
    Srat,
    Slit,
    Hmat,
    Pptt,
    Rhct,
    Rimt,
    Viot,
    Cedt,
    Hest,
    Rqsc,
    Fadt,
    Bert,
    Spcr,
    TcpaClient,
    TcpaServer,
    Tpm2,
    Sdt,
    Rsdp,
    Facs,
}

pub const ALL_KINDS: [Kind; 22] = [
    Kind::Xsdt,
    Kind::Mcfg,
    Kind::Madt,
    Kind::Srat,
    Kind::Slit,
    Kind::Hmat,
    Kind::Pptt,
    Kind::Rhct,
    Kind::Rimt,
    Kind::Viot,
    Kind::Cedt,
    Kind::Hest,
    Kind::Rqsc,
    Kind::Fadt,
    Kind::Bert,
    Kind::Spcr,
    Kind::TcpaClient,
    Kind::TcpaServer,
    Kind::Tpm2,
    Kind::Sdt,
    Kind::Rsdp,
    Kind::Facs,
];

impl Kind {
    pub fn name(self) -> &'static str {
        match self {
            Kind::Xsdt => "XSDT",
            Kind::Mcfg => "MCFG",
            Kind::Madt => "MADT",
            Kind::Srat => "SRAT",
            Kind::Slit => "SLIT",
            Kind::Hmat => "HMAT",
            Kind::Pptt => "PPTT",
            Kind::Rhct => "RHCT",
            Kind::Rimt => "RIMT",
            Kind::Viot => "VIOT",
            Kind::Cedt => "CEDT",
            Kind::Hest => "HEST",
            Kind::Rqsc => "RQSC",
            Kind::Fadt => "FADT",
            Kind::Bert => "BERT",
            Kind::Spcr => "SPCR",
            Kind::TcpaClient => "TCPA-client",
            Kind::TcpaServer => "TCPA-server",
            Kind::Tpm2 => "TPM2",
            Kind::Sdt => "Sdt",
            Kind::Rsdp => "RSDP",
            Kind::Facs => "FACS",
        }
    }
    /// Has the standard 36-byte header with checksum at 9 and Length at 4.
    pub fn has_std_header(self) -> bool {
        !matches!(self, Kind::Rsdp | Kind::Facs)
    }
    pub fn has_body(self) -> bool {
        matches!(
            self,
            Kind::Xsdt
                | Kind::Mcfg
                | Kind::Madt
                | Kind::Srat
                | Kind::Slit
                | Kind::Hmat
                | Kind::Pptt
                | Kind::Rhct
                | Kind::Rimt
                | Kind::Viot
                | Kind::Cedt
                | Kind::Hest
                | Kind::Rqsc
        )
    }
}

#[derive(Clone, Debug)]
pub struct Hdr {
    pub oem_id: [u8; 6],
    pub oem_table_id: [u8; 8],
    pub oem_rev: u32,
}

/// Constructor arguments beyond the common header.
#[derive(Clone, Debug)]
pub enum Ctor {
    None,
    /// MADT: None = LocalInterruptController::Riscv
    Madt(Option<u32>),
    Slit(u32),
    Rhct(u64),
    Bert { len: u32, base: u64 },
    TcpaClient { laml: u32, lasa: u64 },
    Tpm2 { server: bool, base: u64, start: u8 },
    Sdt { sig: [u8; 4], len: u32, rev: u8 },
    Rsdp { xsdt: u64 },
}

#[derive(Clone, Debug)]
pub struct GasArg {
    pub space: u8, // index into SPACES
    pub width: u8,
    pub offset: u8,
    pub access: u8, // 0..=4
    pub addr: u64,
}

pub const GAS_SPACES: [u8; 13] = [0, 1, 2, 3, 4, 5, 6, 7, 8, 9, 0xa, 0xb, 0x7f];

#[derive(Clone, Debug)]
pub enum HandleArg {
    Acpi { hid: [u8; 8], uid: [u8; 4] },
    /// constructed with Handle::new_pci (asserting) when `ctor` is true, else the enum literal
    Pci { seg: u16, bus: u8, dev: u8, func: u8, ctor: bool },
}

#[derive(Clone, Debug)]
pub struct WireArg {
    pub num: u32,
    pub level: bool,
    pub high: bool,
    pub aplic: u16,
}

#[derive(Clone, Debug)]
pub struct MapArg {
    pub src: u32,
    pub dst: u32,
    pub num: u32,
    /// index into the IOMMU handles returned so far
    pub iommu: usize,
    pub ats: bool,
    pub pri: bool,
    pub rciep: bool,
}

#[derive(Clone, Debug)]
pub struct NotifArg {
    pub ty: u8, // 0..=15
    /// (setter index 0..=6, value) in call order
    pub sets: Vec<(u8, u32)>,
}

#[derive(Clone, Debug)]
pub enum RqscId {
    Cache(u32),
    Mem { pd: u32, bw: u64 },
    Acpi { hid: u64, uid: u32 },
    Pci(u32),
    Vendor(u8, Vec<u8>),
}

#[derive(Clone, Debug)]
pub struct RqscRes {
    pub ty: u8, // 0 cache, 1 memory
    pub flags: u16,
    pub id: RqscId,
}

#[derive(Clone, Debug)]
pub enum SdtOp {
    AppendU8(u8),
    AppendU16(u16),
    AppendU32(u32),
    AppendU64(u64),
    AppendSlice(Vec<u8>),
    WriteU8(usize, u8),
    WriteU16(usize, u16),
    WriteU32(usize, u32),
    WriteU64(usize, u64),
    WriteBytes(usize, Vec<u8>),
    /// generic typed entry points (write::<T>/append::<T>) with T=[u8;3]
    WriteArr3(usize, [u8; 3]),
    AppendArr3([u8; 3]),
    SinkByte(u8),
    SinkWord(u16),
    SinkDword(u32),
    SinkQword(u64),
    SinkVec(Vec<u8>),
    UpdateChecksum,
}

#[derive(Clone, Debug)]
pub enum Op {
    XsdtEntry(u64),
    McfgEcam { base: u64, seg: u16, start: u8, end: u8 },
    // ---- MADT
    Lapic { uid: u8, apic: u8, st: u8 },
    IoApic { id: u8, addr: u32, gsi: u32 },
    /// sets: (setter index, value) in call order; setter 0..=11 plain, 12 = performance_interrupt
    /// (value = gsi, edge flag in bit 32), 13 = maintenance_interrupt likewise
    Gicc { st: u8, sets: Vec<(u8, u64)> },
    Gicd { id: u32, base: u64, ver: u8 },
    /// calls in order: 0 = gic_msi_frame_id(v), 1 = base_addr(v), 2 = spi_count_and_base(v&0xffff, v>>16)
    GicMsi { calls: Vec<(u8, u64)> },
    Gicr { base: u64, len: u32 },
    Its { id: u32, base: u64 },
    Rintc { st: u8, hart: u64, uid: u32, ext: u32, imsic_base: u64, imsic_size: u32 },
    Imsic { s_ids: u16, g_ids: u16, guest_bits: u8, hart_bits: u8, group_bits: u8, group_shift: u8, via_add_imsic: bool },
    Aplic { id: u8, hw: [u8; 8], idcs: u16, gsi: u32, addr: u64, size: u32, sources: u16 },
    Plic { id: u8, hw: [u8; 8], sources: u16, max_prio: u16, size: u32, addr: u64, gsi: u32 },
    // ---- SRAT (opts: option-builder calls in order)
    MemAff { pd: u32, base: u64, len: u64, opts: Vec<u8> },
    GenInit { pd: u32, handle: HandleArg, opts: Vec<u8> },
    RintcAff { uid: [u8; 4], clock: u32, pd: Option<u32>, opts: Vec<u8> },
    // ---- SLIT
    SlitSet { a: usize, b: usize, v: u8 },
    // ---- HMAT
    Mpda { initiator: u32, memory: u32 },
    /// cells: (i, j, value) assignments in order; flags: 0 = non_sequential, 1 = min_transfer_size_required
    Sllbi {
        loc: u8,
        data: u8,
        mts: u8,
        base_unit: u64,
        ni: usize,
        nt: usize,
        inits: Vec<(usize, u32)>,
        targs: Vec<(usize, u32)>,
        cells: Vec<(usize, usize, u16)>,
        flags: Vec<u8>,
    },
    Msc { pd: u32, size: u64, total: u8, level: u8, assoc: u8, policy: u8, line: u16, handles: Vec<u16> },
    // ---- PPTT
    /// calls: (builder index 0..=8, value). 0 next_level(handle idx) 1 size 2 sets 3 associativity
    /// 4 allocation_type(0..=2) 5 cache_type(0..=2) 6 write_policy(0..=1) 7 line_size 8 id
    Cache { calls: Vec<(u8, u32)> },
    /// flag_calls: 0 physical 1 valid 2 thread 3 leaf 4 identical
    Proc { parent: Option<usize>, id: u32, caches: Vec<usize>, flag_calls: Vec<u8> },
    // ---- RHCT
    Isa { s: &'static str },
    Mmu { scheme: u8 },
    Cmo { cbom: u8, cbop: u8, cboz: u8 },
    HartInfo { uid: u32, isa: usize, cmos: Vec<usize> },
    // ---- RIMT
    Iommu { id: u16, base: Option<u64>, pci: Option<(u16, u8, u8, u8)>, pd: Option<u32>, wires: Option<Vec<WireArg>> },
    RootComplex { id: u16, seg: u16, ats: bool, pri: bool, maps: Option<Vec<MapArg>> },
    Platform { id: u16, name: String, maps: Option<Vec<MapArg>> },
    // ---- VIOT
    ViotPciIommu { seg: u16, bus: u8, dev: u8, func: u8 },
    ViotMmioIommu { base: u64 },
    ViotPciRange { first: (u16, u8, u8, u8), last: (u16, u8, u8, u8), handle: usize },
    ViotMmioEp { ep: u32, base: u64, handle: usize },
    // ---- CEDT
    Chbs { uid: u32, v2: bool, base: u64 },
    /// opts: 0 type2 1 type3 2 volatile 3 persistent 4 fixed
    Cfmws { base: u64, size: u64, arith: u8, gran: u8, ways: u8, qtg: u16, targets: Vec<[u8; 4]>, opts: Vec<u8> },
    Cxims { gran: u8, maps: Vec<u64> },
    Rdpas { seg: u16, bus: u8, dev: u8, func: u8, mem: bool, base: u64 },
    // ---- HEST. kind 0 root port, 1 device, 2 bridge. ctor: None = new_global, Some((ff, bus, dev, fn))
    Aer { kind: u8, ctor: Option<(bool, u8, u8, u8)>, sets: Vec<(u8, u32)> },
    /// sets: 0 num_records 1 max_sections 2 max_raw_length 5 error_status_block_len 7 read_ack_preserve 8 read_ack_write
    Ghes { v2: bool, source: u16, enabled: bool, sets: Vec<(u8, u64)>, status: Option<GasArg>, notif: Option<NotifArg>, ack: Option<GasArg> },
    // ---- RQSC
    Controller { bandwidth: bool, reg: GasArg, rcid: u32, mcid: u32, flags: u16, res: Vec<RqscRes> },
    // ---- single-object tables
    Tpm2LogArea { min_len: u32, base: u64 },
    /// TCPA server builder calls: 0 log_area(a,b) 1 active_low 2 edge_triggered 3 sci_gpe(a) 4 gsi(a)
    /// 5 bus_is_pnp 6 pci_sbdf(bytes of a) 7 base_addr(gas) 8 config_addr(gas)
    Tcpa { call: u8, a: u64, b: u64, gas: Option<GasArg> },
    /// FADT builder calls: 0 dsdt_32 1 dsdt_64 2 firmware_ctrl_32 3 firmware_ctrl_64 4 acpi_enable
    /// 5 acpi_disable 6 flag(idx 0..=24) 7 gpe_info 8 preferred_pm_profile(0..=8)
    /// 9 = direct pub-field write: field index a, value b (C04 layout only)
    Fadt { call: u8, a: u64, b: u64, c: u64 },
    /// direct assignment to FACS pub field `idx` (C04 layout only)
    FacsSet { idx: u8, v: u64 },
    Sdt(SdtOp),
}

impl Op {
    /// Short stable name of the entry kind (coverage cell).
    pub fn kind_name(&self) -> &'static str {
        match self {
            Op::XsdtEntry(_) => "xsdt.entry",
            Op::McfgEcam { .. } => "mcfg.ecam",
            Op::Lapic { .. } => "madt.lapic",
            Op::IoApic { .. } => "madt.ioapic",
            Op::Gicc { .. } => "madt.gicc",
            Op::Gicd { .. } => "madt.gicd",
            Op::GicMsi { .. } => "madt.gicmsi",
            Op::Gicr { .. } => "madt.gicr",
            Op::Its { .. } => "madt.its",
            Op::Rintc { .. } => "madt.rintc",
            Op::Imsic { .. } => "madt.imsic",
            Op::Aplic { .. } => "madt.aplic",
            Op::Plic { .. } => "madt.plic",
            Op::MemAff { .. } => "srat.memory",
            Op::GenInit { handle: HandleArg::Acpi { .. }, .. } => "srat.initiator.acpi",
            Op::GenInit { .. } => "srat.initiator.pci",
            Op::RintcAff { .. } => "srat.rintc",
            Op::SlitSet { .. } => "slit.set",
            Op::Mpda { .. } => "hmat.mpda",
            Op::Sllbi { .. } => "hmat.sllbi",
            Op::Msc { .. } => "hmat.msc",
            Op::Cache { .. } => "pptt.cache",
            Op::Proc { .. } => "pptt.processor",
            Op::Isa { .. } => "rhct.isa",
            Op::Mmu { .. } => "rhct.mmu",
            Op::Cmo { .. } => "rhct.cmo",
            Op::HartInfo { .. } => "rhct.hartinfo",
            Op::Iommu { .. } => "rimt.iommu",
            Op::RootComplex { .. } => "rimt.rootcomplex",
            Op::Platform { .. } => "rimt.platform",
            Op::ViotPciIommu { .. } => "viot.pci_iommu",
            Op::ViotMmioIommu { .. } => "viot.mmio_iommu",
            Op::ViotPciRange { .. } => "viot.pci_range",
            Op::ViotMmioEp { .. } => "viot.mmio_endpoint",
            Op::Chbs { .. } => "cedt.chbs",
            Op::Cfmws { .. } => "cedt.cfmws",
            Op::Cxims { .. } => "cedt.cxims",
            Op::Rdpas { .. } => "cedt.rdpas",
            Op::Aer { kind: 0, .. } => "hest.aer_root_port",
            Op::Aer { kind: 1, .. } => "hest.aer_device",
            Op::Aer { .. } => "hest.aer_bridge",
            Op::Ghes { v2: false, .. } => "hest.ghes",
            Op::Ghes { .. } => "hest.ghes_v2",
            Op::Controller { .. } => "rqsc.controller",
            Op::Tpm2LogArea { .. } => "tpm2.set_log_area",
            Op::Tcpa { .. } => "tcpa.builder",
            Op::Fadt { .. } => "fadt.builder",
            Op::FacsSet { .. } => "facs.field",
            Op::Sdt(_) => "sdt.op",
        }
    }
}

#[derive(Clone, Debug)]
pub struct Prog {
    pub kind: Kind,
    pub hdr: Hdr,
    pub ctor: Ctor,
    pub ops: Vec<Op>,
}

/// Arguments of a `hest::GenericErrorData` (ACPI 6.5 Table 18.13, Generic Error Data Entry): every pub
/// field the caller can assign plus the payload objects handed to `add_data`.
#[derive(Clone, Debug)]
pub struct ErrDataArg {
    pub section_type: [u8; 16],
    pub severity: u8,
    pub revision: u16,
    pub validation: u8,
    pub flags: u8,
    pub error_data_length: u32,
    pub fru_id: [u8; 16],
    pub fru_text: [u8; 20],
    pub timestamp: [u8; 8],
    /// payload: generic address structures (12 bytes each)
    pub data: Vec<GasArg>,
}
