//! Oracles for C01–C05 over one observed table image.

use super::ops::*;
use super::reference::{get, RefTable};
use super::walk::{check_summaries, walk};
use crate::json::{hex_window, obj, J};
use crate::sinks::sum8;

/// Outcome of one oracle evaluation.
pub enum Verdict {
    Held,
    /// held except for a deviation that exactly matches a listed known finding
    Known(&'static str, String),
    Violated(String, J),
}

pub fn c01(kind: Kind, obs: &[u8]) -> Verdict {
    match kind {
        Kind::Facs => Verdict::Held,
        Kind::Rsdp => {
            if obs.len() < 36 {
                return Verdict::Violated(format!("RSDP serialises to {} bytes", obs.len()), J::Null);
            }
            let a = sum8(&obs[..20]);
            let b = sum8(obs);
            if a != 0 || b != 0 {
                Verdict::Violated(format!("RSDP checksums: first 20 bytes sum to {}, all {} bytes sum to {}", a, obs.len(), b), obj(vec![("image", crate::json::hex(obs).into())]))
            } else {
                Verdict::Held
            }
        }
        _ => {
            let s = sum8(obs);
            if s != 0 {
                Verdict::Violated(
                    format!("{} image of {} bytes sums to {} (mod 256), not 0", kind.name(), obs.len(), s),
                    obj(vec![("header", crate::json::hex(&obs[..obs.len().min(64)]).into()), ("len", obs.len().into())]),
                )
            } else {
                Verdict::Held
            }
        }
    }
}

pub fn c02(kind: Kind, obs: &[u8], rt: &RefTable, f10_known: bool) -> Verdict {
    match kind {
        Kind::Rsdp => {
            if obs.len() != 36 || get(obs, 20, 4) != 36 {
                return Verdict::Violated(format!("RSDP emits {} bytes, length field says {}", obs.len(), if obs.len() >= 24 { get(obs, 20, 4) } else { 0 }), J::Null);
            }
            Verdict::Held
        }
        Kind::Facs => {
            if obs.len() != 64 || get(obs, 4, 4) != 64 {
                return Verdict::Violated(format!("FACS emits {} bytes, length field says {}", obs.len(), if obs.len() >= 8 { get(obs, 4, 4) } else { 0 }), J::Null);
            }
            Verdict::Held
        }
        _ => {
            if obs.len() < 8 {
                return Verdict::Violated(format!("{} emits only {} bytes", kind.name(), obs.len()), J::Null);
            }
            if kind == Kind::Sdt && rt.sdt_len_overwritten {
                return Verdict::Held; // caller supplied the Length bytes; judged by C13
            }
            let declared = get(obs, 4, 4);
            if declared == obs.len() as u64 {
                return Verdict::Held;
            }
            if kind == Kind::Cedt && rt.rdpas > 0 && f10_known && declared + rt.rdpas as u64 == obs.len() as u64 {
                return Verdict::Known("F10", "cedt::PortAssociation (RDPAS) declares a 16-byte record but emits 17 bytes; table Length is short by one per RDPAS".into());
            }
            Verdict::Violated(
                format!("{}: Length field says {} but {} bytes were emitted", kind.name(), declared, obs.len()),
                obj(vec![("header", crate::json::hex(&obs[..obs.len().min(48)]).into())]),
            )
        }
    }
}

pub fn c03(kind: Kind, obs: &[u8], rt: &RefTable, f10_known: bool) -> Verdict {
    if !kind.has_body() {
        return Verdict::Held;
    }
    let rdpas_at: Vec<usize> = if f10_known { rt.entries.iter().filter(|e| e.name == "cedt.rdpas").map(|e| e.off).collect() } else { vec![] };
    let w = match walk(kind, obs, &rdpas_at) {
        Ok(w) => w,
        Err(e) => return Verdict::Violated(format!("{} body does not tile: {}", kind.name(), e), obj(vec![("image_len", obs.len().into())])),
    };
    if kind != Kind::Slit {
        if w.entries.len() != rt.entries.len() {
            return Verdict::Violated(
                format!("{}: walk finds {} entries, {} were added", kind.name(), w.entries.len(), rt.entries.len()),
                obj(vec![("walked", format!("{:?}", &w.entries[..w.entries.len().min(12)]).into())]),
            );
        }
        for (i, (we, ee)) in w.entries.iter().zip(rt.entries.iter()).enumerate() {
            if we.0 != ee.off || we.1 != ee.len || (ee.ty != u64::MAX && we.2 != ee.ty) {
                return Verdict::Violated(
                    format!(
                        "{}: entry #{} ({}) expected at offset {} length {} type {:#x}; walk finds offset {} length {} type {:#x}",
                        kind.name(),
                        i,
                        ee.name,
                        ee.off,
                        ee.len,
                        ee.ty,
                        we.0,
                        we.1,
                        we.2
                    ),
                    obj(vec![("around", hex_window(obs, we.0, 24).into())]),
                );
            }
        }
        // insertion order among entries that the (offset, length, type) triple cannot tell apart: if the
        // walked entries are, byte string for byte string, a re-ordering of the entries that were added,
        // then some position holds another entry than the one inserted there
        let walked: Vec<&[u8]> = w.entries.iter().map(|e| &obs[e.0..(e.0 + e.1).min(obs.len())]).collect();
        let added: Vec<&[u8]> = rt.entries.iter().map(|e| &rt.img[e.off..(e.off + e.len).min(rt.img.len())]).collect();
        if walked != added {
            let (mut a, mut b) = (walked.clone(), added.clone());
            a.sort();
            b.sort();
            if a == b {
                let i = walked.iter().zip(added.iter()).position(|(x, y)| x != y).unwrap_or(0);
                return Verdict::Violated(
                    format!("{}: the walk finds the entries that were added, but not in insertion order (first displaced entry: #{}, {})", kind.name(), i, rt.entries[i].name),
                    obj(vec![("around", hex_window(obs, w.entries[i].0, 24).into())]),
                );
            }
        }
    } else {
        let n = get(obs, 36, 8);
        if n != rt.slit_n as u64 {
            return Verdict::Violated(format!("SLIT locality count field {} but table was created with {}", n, rt.slit_n), J::Null);
        }
    }
    if let Err(e) = check_summaries(kind, obs, &w) {
        return Verdict::Violated(format!("{}: {}", kind.name(), e), J::Null);
    }
    if w.rdpas_deviations > 0 {
        return Verdict::Known("F10", "cedt::PortAssociation (RDPAS) record-length field says 16 but the record occupies 17 bytes".into());
    }
    Verdict::Held
}

/// Byte positions excluded from the C04 comparison: checksum bytes (C01's business) and the
/// table-level revision/version numbers, which are the crate's free choice of which edition of the
/// table it claims to implement (the property pins the revisions of *sub-structures*, which are
/// compared).
pub fn masked(kind: Kind, i: usize) -> bool {
    match kind {
        Kind::Rsdp => i == 8 || i == 32,
        Kind::Facs => i == 32,
        Kind::Fadt => i == 9 || i == 8 || i == 131,
        Kind::Sdt => i == 9,
        _ => i == 9 || i == 8,
    }
}

pub fn c04(kind: Kind, obs: &[u8], rt: &RefTable, f10_known: bool) -> Verdict {
    let exp = &rt.img;
    let n = obs.len().min(exp.len());
    let mut first: Option<usize> = None;
    let mut only_len_field = true;
    // The CXL RDPAS table is inconsistent about its own record length (fields add up to 17, the
    // prescribed value is 16; known finding F10): that one field is not judged here.
    let rdpas_len_fields: Vec<usize> = if kind == Kind::Cedt && rt.rdpas > 0 { rt.entries.iter().filter(|e| e.name == "cedt.rdpas").map(|e| e.off + 2).collect() } else { Vec::new() };
    for i in 0..n {
        if obs[i] != exp[i] && !masked(kind, i) && !rdpas_len_fields.iter().any(|o| i == *o || i == *o + 1) {
            if first.is_none() {
                first = Some(i);
            }
            if !(4..8).contains(&i) {
                only_len_field = false;
                break;
            }
        }
    }
    if obs.len() != exp.len() {
        return Verdict::Violated(
            format!("{}: image is {} bytes, reference encoding is {} bytes (first differing byte: {:?})", kind.name(), obs.len(), exp.len(), first),
            obj(vec![
                ("observed_tail", hex_window(obs, obs.len(), 32).into()),
                ("expected_tail", hex_window(exp, exp.len(), 32).into()),
            ]),
        );
    }
    match first {
        None => Verdict::Held,
        Some(i) => {
            if kind == Kind::Cedt && only_len_field && rt.rdpas > 0 && f10_known && get(obs, 4, 4) + rt.rdpas as u64 == obs.len() as u64 {
                return Verdict::Known("F10", "cedt::PortAssociation (RDPAS): table Length short by one per RDPAS record".into());
            }
            let ent = rt.entries.iter().rev().find(|e| e.off <= i);
            let loc = match ent {
                Some(e) if i < e.off + e.len => format!("entry {} at {} (+{})", e.name, e.off, i - e.off),
                _ => format!("table fixed part (offset {})", i),
            };
            Verdict::Violated(
                format!("{}: byte {} differs from the reference encoding: observed {:#04x}, expected {:#04x}; in {}", kind.name(), i, obs[i], exp[i], loc),
                obj(vec![("observed", hex_window(obs, i, 24).into()), ("expected", hex_window(exp, i, 24).into())]),
            )
        }
    }
}

/// C05 on an image: every reference field holds the expected node offset and a node of the
/// expected type starts there (per the independent walk).
pub fn c05_image(kind: Kind, obs: &[u8], rt: &RefTable) -> Verdict {
    let w = match walk(kind, obs, &[]) {
        Ok(w) => w,
        Err(e) => return Verdict::Violated(format!("{}: cannot resolve references, body does not tile: {}", kind.name(), e), J::Null),
    };
    for r in &rt.refs {
        if r.field_off + r.width > obs.len() {
            return Verdict::Violated(format!("{}: reference field {} at {} is beyond the image", kind.name(), r.what, r.field_off), J::Null);
        }
        let v = get(obs, r.field_off, r.width) as usize;
        if v != r.target_off {
            return Verdict::Violated(
                format!("{}: {} at offset {} holds {}, but the node it was built from starts at {}", kind.name(), r.what, r.field_off, v, r.target_off),
                obj(vec![("around", hex_window(obs, r.field_off, 16).into())]),
            );
        }
        match w.entries.iter().find(|e| e.0 == v) {
            Some(e) if e.2 == r.target_ty => {}
            Some(e) => {
                return Verdict::Violated(format!("{}: {} resolves to offset {} where a node of type {:#x} starts, expected type {:#x}", kind.name(), r.what, v, e.2, r.target_ty), J::Null)
            }
            None => return Verdict::Violated(format!("{}: {} = {} does not resolve to the start of any node", kind.name(), r.what, v), J::Null),
        }
    }
    Verdict::Held
}
