//! Interpreter from abstract programs to the real crate objects (public API only).

use super::ops::*;
use crate::sinks::to_vec;
use acpi_tables::{
    bert::BERT, cedt, facs::FACS, fadt, gas, hest, hmat, madt, mcfg::MCFG, pptt, rhct, rimt, rqsc, rsdp::Rsdp, sdt::Sdt, slit::SLIT,
    spcr::SPCR, srat, tpm2, viot, xsdt::XSDT, Aml, AmlSink,
};
use zerocopy::IntoBytes;

pub fn gas_space(i: u8) -> gas::AddressSpace {
    use gas::AddressSpace::*;
    [
        SystemMemory,
        SystemIo,
        PciConfigSpace,
        EmbeddedController,
        Smbus,
        SystemCmos,
        PciBarTarget,
        Ipmi,
        GeneralPursposeIo,
        GenericSerialBus,
        PlatformCommunicationsChannel,
        PlatformRuntimeMechanism,
        FunctionalFixedHardware,
    ][i as usize]
}
pub fn gas_access(i: u8) -> gas::AccessSize {
    use gas::AccessSize::*;
    [Undefined, ByteAccess, WordAccess, DwordAccess, QwordAccess][i as usize]
}
pub fn mk_gas(g: &GasArg) -> gas::GAS {
    gas::GAS::new(gas_space(g.space), g.width, g.offset, gas_access(g.access), g.addr)
}

pub fn fadt_flag(i: usize) -> fadt::Flags {
    use fadt::Flags::*;
    [
        Wbinvd,
        WbinvdFlush,
        ProcC1,
        PLvl2Up,
        PwrButton,
        SlpButton,
        FixRtc,
        RtcS4,
        TmrValExt,
        DckCap,
        ResetRegSup,
        SealedCase,
        Headless,
        CpuSwSlp,
        PciExpWak,
        UsePlatformClock,
        S4RtcStsValid,
        RemotePowerOnCapable,
        ForceApicClusterModel,
        ForceApicPhysicalDestinationMode,
        HwReducedAcpi,
        LowPowerS0IdleCapable,
        PersistentCpuCachesNotReported,
        PersistentCpuCachesNotPersistent,
        PersistentCpuCachesArePersistent,
    ][i]
}
pub fn pm_profile(i: u8) -> fadt::PmProfile {
    use fadt::PmProfile::*;
    [Unspecified, Desktop, Mobile, Workstation, EnterpriseServer, SohoServer, AppliancePc, PerformanceServer, Tablet][i as usize]
}
pub fn notif_type(i: u8) -> hest::NotificationType {
    use hest::NotificationType::*;
    [
        Polled,
        ExternalIrq,
        LocalIrq,
        Sci,
        Nmi,
        Cmci,
        Mce,
        GpioSignal,
        Armv8Sea,
        Armv8Sei,
        ExternalGsiv,
        SoftwareException,
        RiscvSupervisorSoftwareEvent,
        RiscvLowPriorityRasInterrupt,
        RiscvHighPriorityRasInterrupt,
        RiscvHardwareErrorException,
    ][i as usize]
}
pub fn start_method(code: u8) -> tpm2::StartMethod {
    use tpm2::StartMethod::*;
    match code {
        1 => LegacyUse,
        2 => AcpiStart,
        6 => Mmio,
        7 => Crb,
        8 => CrbAndAcpiStart,
        11 => CrbAndSmcHvc,
        12 => I2cFifo,
        _ => panic!("harness: bad start method"),
    }
}
pub const START_METHODS: [u8; 7] = [1, 2, 6, 7, 8, 11, 12];
pub const WAYS_CODES: [(u8, usize); 8] = [(0, 1), (1, 2), (2, 4), (3, 8), (4, 16), (8, 3), (9, 6), (10, 12)];
pub fn ways(code: u8) -> cedt::InterleaveWays {
    use cedt::InterleaveWays::*;
    match code {
        0 => Ways1,
        1 => Ways2,
        2 => Ways4,
        3 => Ways8,
        4 => Ways16,
        8 => Ways3,
        9 => Ways6,
        10 => Ways12,
        _ => panic!("harness: bad ways"),
    }
}
pub fn granularity(i: u8) -> cedt::InterleaveGranularity {
    use cedt::InterleaveGranularity::*;
    [Granularity256b, Granularity512b, Granularity1kb, Granularity2kb, Granularity4kb, Granularity8kb, Granularity16kb][i as usize]
}
pub fn mts(i: u8) -> hmat::MinTransferSize {
    use hmat::MinTransferSize::*;
    [SizeByteAligned, Size64b, Size128b, Size256b, Size512b, Size1k, Size2k, Size4k, Size8k, Size16k, Size32k, Size64k][i as usize]
}
pub fn data_type(i: u8) -> hmat::DataType {
    use hmat::DataType::*;
    [AccessLatency, ReadLatency, WriteLatency, AccessBandwidth, ReadBandwidth, WriteBandwidth][i as usize]
}
pub fn loc_type(i: u8) -> hmat::LocalityType {
    use hmat::LocalityType::*;
    match i {
        0 => Memory,
        1 => FirstLevelCache,
        2 => SecondLevelCache,
        _ => ThirdLevelCache,
    }
}
fn cache_level(i: u8) -> hmat::CacheLevel {
    use hmat::CacheLevel::*;
    match i {
        0 => None,
        1 => One,
        2 => Two,
        _ => Three,
    }
}
fn madt_status(st: u8) -> madt::EnabledStatus {
    match st {
        0 => madt::EnabledStatus::Disabled,
        1 => madt::EnabledStatus::Enabled,
        _ => madt::EnabledStatus::DisabledOnlineCapable,
    }
}

#[derive(Clone, Copy, Debug, PartialEq, Eq)]
pub enum HandleKind {
    Proc,
    Cache,
    Isa,
    Cmo,
    Iommu,
    Viot,
}

#[derive(Default)]
pub struct Applied {
    /// handle returned by this op, read back by probe serialisation
    pub handle: Option<(HandleKind, u64)>,
    /// for entries added through their raw in-memory form: (as_bytes, serialised stream)
    pub raw: Option<(Vec<u8>, Vec<u8>)>,
}

pub enum Real {
    Xsdt(XSDT),
    Mcfg(MCFG),
    Madt(madt::MADT),
    Srat(srat::SRAT),
    Slit(SLIT),
    Hmat(hmat::HMAT),
    Pptt { t: pptt::PPTT, procs: Vec<pptt::ProcessorHandle>, caches: Vec<pptt::CacheHandle> },
    Rhct { t: rhct::RHCT, isas: Vec<rhct::IsaStringHandle>, cmos: Vec<rhct::CmoHandle> },
    Rimt { t: rimt::RIMT, iommus: Vec<rimt::IommuOffset> },
    Viot { t: viot::VIOT, handles: Vec<viot::TranslationHandle> },
    Cedt(cedt::CEDT),
    Hest(hest::HEST),
    Rqsc(rqsc::RQSC),
    Fadt(fadt::FADTBuilder),
    Bert(BERT),
    Spcr(SPCR<'static>),
    TcpaClient(tpm2::TpmClient1_2),
    TcpaServer(tpm2::TpmServer1_2),
    Tpm2(tpm2::Tpm2),
    Sdt(Sdt),
    Rsdp(Rsdp),
    Facs(FACS),
}

pub fn probe_proc(h: &pptt::ProcessorHandle) -> u64 {
    pptt::ProcessorNode::new(Some(h), 0).parent as u64
}
pub fn probe_cache(h: &pptt::CacheHandle) -> u64 {
    let n = pptt::CacheNodeBuilder::default().next_level(h).to_node();
    let b = n.as_bytes();
    u32::from_le_bytes([b[8], b[9], b[10], b[11]]) as u64
}
pub fn probe_isa(h: &rhct::IsaStringHandle) -> u64 {
    let b = to_vec(&rhct::HartInfoNode::new(0, h));
    u32::from_le_bytes([b[12], b[13], b[14], b[15]]) as u64
}
pub fn probe_cmo(isa: &rhct::IsaStringHandle, h: &rhct::CmoHandle) -> u64 {
    let b = to_vec(&rhct::HartInfoNode::new(0, isa).with_cmo(h));
    u32::from_le_bytes([b[16], b[17], b[18], b[19]]) as u64
}
pub fn probe_iommu(h: rimt::IommuOffset) -> u64 {
    let b = to_vec(&rimt::IdMapping::new(0, 0, 1, h, false, false, false));
    u32::from_le_bytes([b[12], b[13], b[14], b[15]]) as u64
}
pub fn probe_viot(h: &viot::TranslationHandle) -> u64 {
    let b = to_vec(&viot::MmioEndpoint::new(0, 0, h));
    u16::from_le_bytes([b[16], b[17]]) as u64
}

macro_rules! raw_of {
    ($s:expr) => {{
        let s = &$s;
        Some((s.as_bytes().to_vec(), to_vec(s)))
    }};
}

pub fn build_notification(n: &NotifArg) -> hest::NotificationStructure {
    let mut s = hest::NotificationStructure::new(notif_type(n.ty));
    for (k, v) in &n.sets {
        s = match k {
            0 => s.conf_write_en(*v as u16),
            1 => s.poll_interval_ms(*v),
            2 => s.vector(*v),
            3 => s.polling_threshold_value(*v),
            4 => s.polling_threshold_window_ms(*v),
            5 => s.error_threshold_value(*v),
            6 => s.error_threshold_window_ms(*v),
            _ => panic!("harness: bad notification setter"),
        };
    }
    s
}

pub fn build_gicc(st: u8, sets: &[(u8, u64)]) -> madt::Gicc {
    let mut g = madt::Gicc::new(madt_status(st));
    for (s, v) in sets {
        let v = *v;
        g = match s {
            0 => g.cpu_interface_number(v as u32),
            1 => g.acpi_processor_uid(v as u32),
            2 => g.parking_protocol_version(v as u32),
            3 => g.parked_address(v),
            4 => g.base_address(v),
            5 => g.virtual_registers(v),
            6 => g.control_block_registers(v),
            7 => g.redistributor_base(v),
            8 => g.mpidr(v),
            9 => g.power_efficiency_class(v as u8),
            10 => g.overflow_interrupt(v as u16),
            11 => g.trbe_interrupt(v as u16),
            12 => g.performance_interrupt(v as u32, if (v >> 32) & 1 == 1 { madt::Trigger::Edge } else { madt::Trigger::Level }),
            13 => g.maintenance_interrupt(v as u32, if (v >> 32) & 1 == 1 { madt::Trigger::Edge } else { madt::Trigger::Level }),
            _ => panic!("harness: bad gicc setter"),
        };
    }
    g
}

pub fn build_gicmsi(calls: &[(u8, u64)]) -> madt::GicMsi {
    let mut m = madt::GicMsi::new();
    for (c, v) in calls {
        m = match c {
            0 => m.gic_msi_frame_id(*v as u32),
            1 => m.base_addr(*v),
            2 => m.spi_count_and_base(*v as u16, (*v >> 16) as u16),
            _ => panic!("harness: bad gicmsi call"),
        };
    }
    m
}

pub fn build_mem_aff(pd: u32, base: u64, len: u64, opts: &[u8]) -> srat::MemoryAffinity {
    let mut m = srat::MemoryAffinity::new(pd, base, len);
    for o in opts {
        m = match o {
            0 => m.enabled(),
            1 => m.hotpluggable(),
            _ => m.nonvolatile(),
        };
    }
    m
}
pub fn build_handle(h: &HandleArg) -> srat::Handle {
    match h {
        HandleArg::Acpi { hid, uid } => srat::Handle::new_acpi(*hid, *uid),
        HandleArg::Pci { seg, bus, dev, func, ctor } => {
            if *ctor {
                srat::Handle::new_pci(*seg, *bus, *dev, *func)
            } else {
                srat::Handle::Pci { segment: *seg, bus: *bus, device: *dev, function: *func }
            }
        }
    }
}
pub fn build_gen_init(pd: u32, h: &HandleArg, opts: &[u8]) -> srat::GenericInitiator {
    let mut g = srat::GenericInitiator::new(pd, build_handle(h));
    for o in opts {
        g = match o {
            0 => g.enabled(),
            _ => g.architectural(),
        };
    }
    g
}
pub fn build_rintc_aff(uid: [u8; 4], clock: u32, pd: Option<u32>, opts: &[u8]) -> srat::RintcAffinity {
    let mut r = srat::RintcAffinity::new(uid, clock);
    if let Some(pd) = pd {
        r = r.proximity_domain(pd);
    }
    for _ in opts {
        r = r.enabled();
    }
    r
}

pub fn build_cfmws(base: u64, size: u64, arith: u8, gran: u8, w: u8, qtg: u16, targets: &[[u8; 4]], opts: &[u8]) -> cedt::CxlFixedMemory {
    let mut f = cedt::CxlFixedMemory::new(
        base,
        size,
        if arith == 0 { cedt::InterleaveArithmetic::Modulo } else { cedt::InterleaveArithmetic::ModuloXor },
        granularity(gran),
        ways(w),
        qtg,
    );
    for o in opts {
        f = match o {
            0 => f.cxl_type_2_memory(),
            1 => f.cxl_type_3_memory(),
            2 => f.volatile(),
            3 => f.persistent(),
            _ => f.fixed_configuration(),
        };
    }
    for t in targets {
        f.add_target(*t);
    }
    f
}

pub fn build_sllbi(op: &Op) -> hmat::SystemLocality {
    if let Op::Sllbi { loc, data, mts: m, base_unit, ni, nt, inits, targs, cells, flags } = op {
        let mut s = hmat::SystemLocality::new(loc_type(*loc), data_type(*data), mts(*m), *base_unit, *ni, *nt);
        for (i, v) in inits {
            s.set_initiator_value(*i, *v);
        }
        for (j, v) in targs {
            s.set_target_value(*j, *v);
        }
        // interleave flags and cells deterministically: flags first half, cells, rest of flags
        let half = flags.len() / 2;
        for f in &flags[..half] {
            if *f == 0 {
                s.non_sequential_transfers()
            } else {
                s.minimum_transfer_size_required()
            }
        }
        for (k, (i, j, v)) in cells.iter().enumerate() {
            s.set_entry_value(*i, *j, *v);
            if ni * nt <= 64 {
                peek(&s, k);
            }
        }
        for f in &flags[half..] {
            if *f == 0 {
                s.non_sequential_transfers()
            } else {
                s.minimum_transfer_size_required()
            }
        }
        s
    } else {
        unreachable!()
    }
}

pub fn build_msc(op: &Op) -> hmat::MemorySideCache {
    if let Op::Msc { pd, size, total, level, assoc, policy, line, handles } = op {
        let a = match assoc {
            0 => hmat::Associativity::None,
            1 => hmat::Associativity::DirectMapped,
            _ => hmat::Associativity::Complex,
        };
        let w = match policy {
            0 => hmat::WritePolicy::None,
            1 => hmat::WritePolicy::Writeback,
            _ => hmat::WritePolicy::Writethrough,
        };
        let mut c = hmat::MemorySideCache::new(*pd, *size, cache_level(*total), cache_level(*level), a, w, *line);
        for h in handles {
            c.add_smbios_handle(*h);
        }
        c
    } else {
        unreachable!()
    }
}

pub fn build_rqsc_resource(r: &RqscRes) -> rqsc::ResourceStructure {
    let id = match &r.id {
        RqscId::Cache(c) => rqsc::ResourceID::Cache(rqsc::CacheResource::new(*c)),
        RqscId::Mem { pd, bw } => rqsc::ResourceID::MemoryAffinityStructure(rqsc::MemoryAffinityStructureResource::new(*pd, *bw)),
        RqscId::Acpi { hid, uid } => rqsc::ResourceID::ACPIDevice(rqsc::ACPIDeviceResource::new(*hid, *uid)),
        RqscId::Pci(b) => rqsc::ResourceID::PCIDevice(rqsc::PCIDeviceResource::new(*b)),
        RqscId::Vendor(t, d) => rqsc::ResourceID::VendorSpecific(*t, d.clone()),
    };
    rqsc::ResourceStructure::new(if r.ty == 0 { rqsc::ResourceType::Cache } else { rqsc::ResourceType::Memory }, r.flags, id)
}

/// Serialise a sub-object that is still being built, into a throw-away sink, for about a third of the
/// call sites' steps: looking at an object must not change what it (or a clone of it) emits later.
pub fn peek(o: &dyn acpi_tables::Aml, step: usize) {
    if step % 3 == 1 {
        let mut sink = crate::sinks::ByteOnly::default();
        o.to_aml_bytes(&mut sink);
        let _ = acpi_tables::u8sum(o);
    }
}

pub fn build_controller(op: &Op) -> rqsc::QoSController {
    if let Op::Controller { bandwidth, reg, rcid, mcid, flags, res } = op {
        let mut c = rqsc::QoSController::new(
            if *bandwidth { rqsc::ControllerType::Bandwidth } else { rqsc::ControllerType::Capacity },
            mk_gas(reg),
            *rcid,
            *mcid,
            *flags,
        );
        // the controller is Clone: half of the resources go into the original, the rest into a clone
        // of it (which must carry the accumulated length and count along)
        let half = res.len() / 2;
        for (k, r) in res[..half].iter().enumerate() {
            c.add_resource(build_rqsc_resource(r));
            peek(&c, k + res.len());
        }
        let mut c2 = if res.len() % 3 == 0 { c } else { c.clone() };
        for (k, r) in res[half..].iter().enumerate() {
            peek(&c2, k + *rcid as usize);
            c2.add_resource(build_rqsc_resource(r).clone());
        }
        c2
    } else {
        unreachable!()
    }
}

/// Direct assignment to the FADT's pub field number `idx` (layout check only).
pub fn fadt_set_field(b: &mut fadt::FADTBuilder, idx: usize, v: u64) {
    let g = || mk_gas(&super::reference::fadt_gas_pattern(v));
    match idx {
        0 => b.firmware_ctrl = (v as u32).into(),
        1 => b.dsdt = (v as u32).into(),
        2 => b.preferred_pm_profile = v as u8,
        3 => b.sci_int = (v as u16).into(),
        4 => b.smi_cmd = (v as u32).into(),
        5 => b.acpi_enable = v as u8,
        6 => b.acpi_disable = v as u8,
        7 => b.s4bios_req = v as u8,
        8 => b.pstate_cnt = v as u8,
        9 => b.pm1a_evt_blk = (v as u32).into(),
        10 => b.pm1b_evt_blk = (v as u32).into(),
        11 => b.pm1a_cnt_blk = (v as u32).into(),
        12 => b.pm1b_cnt_blk = (v as u32).into(),
        13 => b.pm2_cnt_blk = (v as u32).into(),
        14 => b.pm_tmr_blk = (v as u32).into(),
        15 => b.gpe0_blk = (v as u32).into(),
        16 => b.gpe1_blk = (v as u32).into(),
        17 => b.pm1_evt_len = v as u8,
        18 => b.pm1_cnt_len = v as u8,
        19 => b.pm2_cnt_len = v as u8,
        20 => b.pm_tmr_len = v as u8,
        21 => b.gpe0_blk_len = v as u8,
        22 => b.gpe1_blk_len = v as u8,
        23 => b.gpe1_base = v as u8,
        24 => b.cst_cnt = v as u8,
        25 => b.p_lvl2_lat = (v as u16).into(),
        26 => b.p_lvl3_lat = (v as u16).into(),
        27 => b.flush_size = (v as u16).into(),
        28 => b.flush_stride = (v as u16).into(),
        29 => b.duty_offset = v as u8,
        30 => b.duty_width = v as u8,
        31 => b.day_alrm = v as u8,
        32 => b.mon_alrm = v as u8,
        33 => b.century = v as u8,
        34 => b.iapc_boot_arch = (v as u16).into(),
        35 => b.flags = (v as u32).into(),
        36 => b.reset_reg = g(),
        37 => b.reset_value = v as u8,
        38 => b.arm_boot_arch = (v as u16).into(),
        39 => b.fadt_minor_version = v as u8,
        40 => b.x_firmware_ctrl = v.into(),
        41 => b.x_dsdt = v.into(),
        42 => b.x_pm1a_evt_blk = g(),
        43 => b.x_pm1b_evt_blk = g(),
        44 => b.x_pm1a_cnt_blk = g(),
        45 => b.x_pm1b_cnt_blk = g(),
        46 => b.x_pm2_cnt_blk = g(),
        47 => b.x_pm_tmr_blk = g(),
        48 => b.x_gpe0_blk = g(),
        49 => b.x_gpe1_blk = g(),
        50 => b.sleep_control_reg = g(),
        51 => b.sleep_status_reg = g(),
        52 => b.hypervisor_vendor_identity = v.into(),
        _ => panic!("harness: bad fadt field"),
    }
}

/// Direct assignment to FACS pub field `idx` (layout check only).
pub fn facs_set_field(f: &mut FACS, idx: usize, v: u64) {
    match idx {
        0 => f.hardware_signature = (v as u32).into(),
        1 => f.waking = (v as u32).into(),
        2 => f.lock = (v as u32).into(),
        3 => f.flags = (v as u32).into(),
        4 => f.x_waking = v.into(),
        5 => f.version = v as u8,
        6 => f.ospm_flags = (v as u32).into(),
        _ => panic!("harness: bad facs field"),
    }
}

impl Real {
    pub fn new(p: &Prog) -> Real {
        let h = &p.hdr;
        let (a, b, c) = (h.oem_id, h.oem_table_id, h.oem_rev);
        match (p.kind, &p.ctor) {
            (Kind::Xsdt, _) => Real::Xsdt(XSDT::new(a, b, c)),
            (Kind::Mcfg, _) => Real::Mcfg(MCFG::new(a, b, c)),
            (Kind::Madt, Ctor::Madt(l)) => Real::Madt(madt::MADT::new(
                a,
                b,
                c,
                match l {
                    None => madt::LocalInterruptController::Riscv,
                    Some(x) => madt::LocalInterruptController::Address(*x),
                },
            )),
            (Kind::Srat, _) => Real::Srat(srat::SRAT::new(a, b, c)),
            (Kind::Slit, Ctor::Slit(n)) => Real::Slit(SLIT::new(a, b, c, *n)),
            (Kind::Hmat, _) => Real::Hmat(hmat::HMAT::new(a, b, c)),
            (Kind::Pptt, _) => Real::Pptt { t: pptt::PPTT::new(a, b, c), procs: vec![], caches: vec![] },
            (Kind::Rhct, Ctor::Rhct(tb)) => Real::Rhct { t: rhct::RHCT::new(a, b, c, *tb), isas: vec![], cmos: vec![] },
            (Kind::Rimt, _) => Real::Rimt { t: rimt::RIMT::new(a, b, c), iommus: vec![] },
            (Kind::Viot, _) => Real::Viot { t: viot::VIOT::new(a, b, c), handles: vec![] },
            (Kind::Cedt, _) => Real::Cedt(cedt::CEDT::new(a, b, c)),
            (Kind::Hest, _) => Real::Hest(hest::HEST::new(a, b, c)),
            (Kind::Rqsc, _) => Real::Rqsc(rqsc::RQSC::new(a, b, c)),
            (Kind::Fadt, _) => Real::Fadt(fadt::FADTBuilder::new(a, b, c)),
            (Kind::Bert, Ctor::Bert { len, base }) => Real::Bert(BERT::new(a, b, c, *len, *base)),
            (Kind::Spcr, _) => Real::Spcr(SPCR::sbi(a, b, c)),
            (Kind::TcpaClient, Ctor::TcpaClient { laml, lasa }) => Real::TcpaClient(tpm2::TpmClient1_2::new(a, b, c, *laml, *lasa)),
            (Kind::TcpaServer, _) => Real::TcpaServer(tpm2::TpmServer1_2::new(a, b, c)),
            (Kind::Tpm2, Ctor::Tpm2 { server, base, start }) => Real::Tpm2(tpm2::Tpm2::new(
                a,
                b,
                c,
                if *server { tpm2::PlatformClass::Server } else { tpm2::PlatformClass::Client },
                *base,
                start_method(*start),
            )),
            (Kind::Sdt, Ctor::Sdt { sig, len, rev }) => Real::Sdt(Sdt::new(*sig, *len, *rev, a, b, c)),
            (Kind::Rsdp, Ctor::Rsdp { xsdt }) => Real::Rsdp(Rsdp::new(a, *xsdt)),
            (Kind::Facs, _) => Real::Facs(FACS::new()),
            (k, ct) => panic!("harness: bad ctor {:?} for {:?}", ct, k),
        }
    }

    /// Give `f` the table as the `Aml` object a VMM would serialise.
    pub fn with_aml(&self, f: &mut dyn FnMut(&dyn Aml)) {
        match self {
            Real::Xsdt(t) => f(t),
            Real::Mcfg(t) => f(t),
            Real::Madt(t) => f(t),
            Real::Srat(t) => f(t),
            Real::Slit(t) => f(t),
            Real::Hmat(t) => f(t),
            Real::Pptt { t, .. } => f(t),
            Real::Rhct { t, .. } => f(t),
            Real::Rimt { t, .. } => f(t),
            Real::Viot { t, .. } => f(t),
            Real::Cedt(t) => f(t),
            Real::Hest(t) => f(t),
            Real::Rqsc(t) => f(t),
            Real::Fadt(b) => {
                let t = (*b).finalize();
                f(&t)
            }
            Real::Bert(t) => f(t),
            Real::Spcr(t) => f(t),
            Real::TcpaClient(t) => f(t),
            Real::TcpaServer(t) => f(t),
            Real::Tpm2(t) => f(t),
            Real::Sdt(t) => f(t),
            Real::Rsdp(t) => f(t),
            Real::Facs(t) => f(t),
        }
    }

    /// Raw in-memory form of whole-table objects that expose one (BERT, RSDP, FACS, TCPA server).
    pub fn table_as_bytes(&self) -> Option<Vec<u8>> {
        match self {
            Real::Bert(t) => Some(t.as_bytes().to_vec()),
            Real::Rsdp(t) => Some(t.as_bytes().to_vec()),
            Real::Facs(t) => Some(t.as_bytes().to_vec()),
            Real::TcpaServer(t) => Some(t.as_bytes().to_vec()),
            Real::Sdt(t) => Some(t.as_slice().to_vec()),
            _ => None,
        }
    }

    pub fn apply(&mut self, op: &Op, want_raw: bool) -> Applied {
        let mut out = Applied::default();
        match (self, op) {
            (Real::Xsdt(t), Op::XsdtEntry(v)) => t.add_entry(*v),
            (Real::Mcfg(t), Op::McfgEcam { base, seg, start, end }) => t.add_ecam(*base, *seg, *start, *end),
            (Real::Madt(t), op) => {
                macro_rules! add {
                    ($s:expr) => {{
                        let s = $s;
                        if want_raw {
                            out.raw = raw_of!(s);
                        }
                        t.add_structure(s);
                    }};
                }
                match op {
                    Op::Lapic { uid, apic, st } => add!(madt::ProcessorLocalApic::new(*uid, *apic, madt_status(*st))),
                    Op::IoApic { id, addr, gsi } => add!(madt::IoApic::new(*id, *addr, *gsi)),
                    Op::Gicc { st, sets } => add!(build_gicc(*st, sets)),
                    Op::Gicd { id, base, ver } => add!(madt::Gicd::new(
                        *id,
                        *base,
                        match ver {
                            0 => madt::GicVersion::Unspecified,
                            1 => madt::GicVersion::GICv1,
                            2 => madt::GicVersion::GICv2,
                            3 => madt::GicVersion::GICv3,
                            _ => madt::GicVersion::GICv4,
                        }
                    )),
                    Op::GicMsi { calls } => add!(build_gicmsi(calls)),
                    Op::Gicr { base, len } => add!(madt::Gicr::new(*base, *len)),
                    Op::Its { id, base } => add!(madt::GicIts::new(*id, *base)),
                    Op::Rintc { st, hart, uid, ext, imsic_base, imsic_size } => add!(madt::RINTC::new(
                        match st {
                            0 => madt::HartStatus::Disabled,
                            1 => madt::HartStatus::Enabled,
                            _ => madt::HartStatus::OnlineCapable,
                        },
                        *hart,
                        *uid,
                        *ext,
                        *imsic_base,
                        *imsic_size
                    )),
                    Op::Imsic { s_ids, g_ids, guest_bits, hart_bits, group_bits, group_shift, via_add_imsic } => {
                        let s = madt::IMSIC::new(*s_ids, *g_ids, *guest_bits, *hart_bits, *group_bits, *group_shift);
                        if want_raw {
                            out.raw = raw_of!(s);
                        }
                        if *via_add_imsic {
                            t.add_imsic(s)
                        } else {
                            t.add_structure(s)
                        }
                    }
                    Op::Aplic { id, hw, idcs, gsi, addr, size, sources } => add!(madt::APLIC::new(*id, *hw, *idcs, *gsi, *addr, *size, *sources)),
                    Op::Plic { id, hw, sources, max_prio, size, addr, gsi } => {
                        add!(madt::PLIC::new(*id, *hw, *sources, *max_prio, *size, *addr, *gsi))
                    }
                    o => panic!("harness: op {:?} not valid for MADT", o),
                }
            }
            (Real::Srat(t), Op::MemAff { pd, base, len, opts }) => t.add_memory_affinity(build_mem_aff(*pd, *base, *len, opts)),
            (Real::Srat(t), Op::GenInit { pd, handle, opts }) => t.add_generic_initiator(build_gen_init(*pd, handle, opts)),
            (Real::Srat(t), Op::RintcAff { uid, clock, pd, opts }) => {
                let r = build_rintc_aff(*uid, *clock, *pd, opts);
                if want_raw {
                    out.raw = raw_of!(r);
                }
                t.add_rintc_affinity(r)
            }
            (Real::Slit(t), Op::SlitSet { a, b, v }) => t.set_distance(*a, *b, *v),
            (Real::Hmat(t), Op::Mpda { initiator, memory }) => {
                let m = hmat::MemoryProximityDomain::new(*initiator, *memory);
                if want_raw {
                    out.raw = raw_of!(m);
                }
                t.add_memory_proximity(m)
            }
            (Real::Hmat(t), op @ Op::Sllbi { .. }) => t.add_system_locality(build_sllbi(op)),
            (Real::Hmat(t), op @ Op::Msc { .. }) => t.add_memory_side_cache(build_msc(op)),
            (Real::Pptt { t, caches, .. }, Op::Cache { calls }) => {
                let mut b = pptt::CacheNodeBuilder::default();
                for (c, v) in calls {
                    b = match c {
                        0 => b.next_level(&caches[*v as usize]),
                        1 => b.size(*v),
                        2 => b.sets(*v),
                        3 => b.associativity(*v as u8),
                        4 => b.allocation_type(match v {
                            0 => pptt::AllocationType::Read,
                            1 => pptt::AllocationType::Write,
                            _ => pptt::AllocationType::Both,
                        }),
                        5 => b.cache_type(match v {
                            0 => pptt::CacheType::Data,
                            1 => pptt::CacheType::Instruction,
                            _ => pptt::CacheType::Unified,
                        }),
                        6 => b.write_policy(if *v == 0 { pptt::WritePolicy::Writeback } else { pptt::WritePolicy::Writethrough }),
                        7 => b.line_size(*v as u16),
                        8 => b.id(*v),
                        _ => panic!("harness: bad cache builder call"),
                    };
                }
                let n = b.to_node();
                if want_raw {
                    out.raw = raw_of!(n);
                }
                let h = t.add_cache(n);
                out.handle = Some((HandleKind::Cache, probe_cache(&h)));
                caches.push(h);
            }
            (Real::Pptt { t, procs, caches }, Op::Proc { parent, id, caches: cs, flag_calls }) => {
                let mut n = pptt::ProcessorNode::new(parent.map(|i| &procs[i]), *id);
                // interleave cache adds and flag calls
                let mut fi = flag_calls.iter();
                for (k, c) in cs.iter().enumerate() {
                    n = n.add_cache(&caches[*c]);
                    peek(&n, k + *id as usize);
                    if let Some(f) = fi.next() {
                        n = proc_flag(n, *f);
                    }
                }
                for f in fi {
                    n = proc_flag(n, *f);
                }
                let h = t.add_processor(n);
                out.handle = Some((HandleKind::Proc, probe_proc(&h)));
                procs.push(h);
            }
            (Real::Rhct { t, isas, .. }, Op::Isa { s }) => {
                let h = t.add_isa_string(s);
                out.handle = Some((HandleKind::Isa, probe_isa(&h)));
                isas.push(h);
            }
            (Real::Rhct { t, .. }, Op::Mmu { scheme }) => t.add_mmu_node(match scheme {
                0 => rhct::VirtualAddressScheme::Sv39,
                1 => rhct::VirtualAddressScheme::Sv48,
                _ => rhct::VirtualAddressScheme::Sv57,
            }),
            (Real::Rhct { t, isas, cmos }, Op::Cmo { cbom, cbop, cboz }) => {
                let h = t.add_cmo(rhct::CmoNode::new(*cbom, *cbop, *cboz));
                if let Some(i) = isas.first() {
                    out.handle = Some((HandleKind::Cmo, probe_cmo(i, &h)));
                }
                cmos.push(h);
            }
            (Real::Rhct { t, isas, cmos }, Op::HartInfo { uid, isa, cmos: cs }) => {
                let mut n = rhct::HartInfoNode::new(*uid, &isas[*isa]);
                for (k, c) in cs.iter().enumerate() {
                    n = n.with_cmo(&cmos[*c]);
                    peek(&n, k + *uid as usize);
                }
                t.add_hart_info(n);
            }
            (Real::Rimt { t, iommus }, Op::Iommu { id, base, pci, pd, wires }) => {
                let io = rimt::Iommu::new(
                    *id,
                    *base,
                    pci.map(|(s, b, d, f)| rimt::PciDevice::new(s, b, d, f)),
                    *pd,
                    wires.as_ref().map(|ws| ws.iter().map(|w| rimt::InterruptWire::new(w.num, w.level, w.high, w.aplic)).collect()),
                );
                let h = t.add_iommu(io);
                out.handle = Some((HandleKind::Iommu, probe_iommu(h)));
                iommus.push(h);
            }
            (Real::Rimt { t, iommus }, Op::RootComplex { id, seg, ats, pri, maps }) => {
                let ms = maps.as_ref().map(|ms| ms.iter().map(|m| rimt::IdMapping::new(m.src, m.dst, m.num, iommus[m.iommu], m.ats, m.pri, m.rciep)).collect());
                t.add_pcie_root_complex(rimt::PcieRootComplex::new(*id, *seg, *ats, *pri, ms));
            }
            (Real::Rimt { t, iommus }, Op::Platform { id, name, maps }) => {
                let ms = maps.as_ref().map(|ms| ms.iter().map(|m| rimt::IdMapping::new(m.src, m.dst, m.num, iommus[m.iommu], m.ats, m.pri, m.rciep)).collect());
                t.add_platform(rimt::Platform::new(*id, name.clone(), ms));
            }
            (Real::Viot { t, handles }, Op::ViotPciIommu { seg, bus, dev, func }) => {
                let h = t.add_virtio_pci_iommu(viot::VirtIoPciIommu::new(viot::PciDevice::new(*seg, *bus, *dev, *func)));
                out.handle = Some((HandleKind::Viot, probe_viot(&h)));
                handles.push(h);
            }
            (Real::Viot { t, handles }, Op::ViotMmioIommu { base }) => {
                let h = t.add_virtio_mmio_iommu(viot::VirtIoMmioIommu::new(*base));
                out.handle = Some((HandleKind::Viot, probe_viot(&h)));
                handles.push(h);
            }
            (Real::Viot { t, handles }, Op::ViotPciRange { first, last, handle }) => t.add_pci_range(viot::PciRange::new(
                viot::PciDevice::new(first.0, first.1, first.2, first.3),
                viot::PciDevice::new(last.0, last.1, last.2, last.3),
                &handles[*handle],
            )),
            (Real::Viot { t, handles }, Op::ViotMmioEp { ep, base, handle }) => t.add_mmio_endpoint(viot::MmioEndpoint::new(*ep, *base, &handles[*handle])),
            (Real::Cedt(t), Op::Chbs { uid, v2, base }) => {
                t.add_host_bridge(cedt::CxlHostBridge::new(*uid, if *v2 { cedt::CxlVersion::Cxl2 } else { cedt::CxlVersion::Cxl1_1 }, *base))
            }
            (Real::Cedt(t), Op::Cfmws { base, size, arith, gran, ways: w, qtg, targets, opts }) => {
                t.add_fixed_memory(build_cfmws(*base, *size, *arith, *gran, *w, *qtg, targets, opts))
            }
            (Real::Cedt(t), Op::Cxims { gran, maps }) => {
                let mut x = cedt::XorInterleaveMath::new(granularity(*gran));
                for (k, m) in maps.iter().enumerate() {
                    x.add_xormap(*m);
                    peek(&x, k + maps.len());
                }
                t.add_xor_interleave_math(x)
            }
            (Real::Cedt(t), Op::Rdpas { seg, bus, dev, func, mem, base }) => t.add_port_association(cedt::PortAssociation::new(
                *seg,
                *bus,
                *dev,
                *func,
                if *mem { cedt::ProtocolType::CxlMem } else { cedt::ProtocolType::CxlIo },
                *base,
            )),
            (Real::Hest(t), op @ Op::Aer { .. }) => {
                let (raw, add): (Option<(Vec<u8>, Vec<u8>)>, Box<dyn FnOnce(&mut hest::HEST)>) = build_aer(op);
                if want_raw {
                    out.raw = raw;
                }
                add(t);
            }
            (Real::Hest(t), Op::Ghes { v2, source, enabled, sets, status, notif, ack }) => {
                let en = if *enabled { hest::EnabledStatus::Enabled } else { hest::EnabledStatus::Disabled };
                if *v2 {
                    let mut g = hest::GenericHardwareSourceV2::new(*source, en);
                    // interleave plain setters with the structure setters
                    if let Some(s) = status {
                        g = g.error_status_address(mk_gas(s));
                    }
                    for (k, v) in sets {
                        g = match k {
                            0 => g.num_records(*v as u32),
                            1 => g.max_sections(*v as u32),
                            2 => g.max_raw_length(*v as u32),
                            5 => g.error_status_block_len(*v as u32),
                            7 => g.read_ack_preserve(*v),
                            8 => g.read_ack_write(*v),
                            _ => panic!("harness: bad ghes setter"),
                        };
                    }
                    if let Some(n) = notif {
                        g = g.notification(build_notification(n));
                    }
                    if let Some(a) = ack {
                        g = g.read_ack_register(mk_gas(a));
                    }
                    if want_raw {
                        out.raw = raw_of!(g);
                    }
                    t.add_structure(g);
                } else {
                    let mut g = hest::GenericHardwareSource::new(*source, en);
                    if let Some(n) = notif {
                        g = g.notification(build_notification(n));
                    }
                    for (k, v) in sets {
                        g = match k {
                            0 => g.num_records(*v as u32),
                            1 => g.max_sections(*v as u32),
                            2 => g.max_raw_length(*v as u32),
                            5 => g.error_status_block_len(*v as u32),
                            _ => panic!("harness: bad ghes setter"),
                        };
                    }
                    if let Some(s) = status {
                        g = g.error_status_address(mk_gas(s));
                    }
                    if want_raw {
                        out.raw = raw_of!(g);
                    }
                    t.add_structure(g);
                }
            }
            (Real::Rqsc(t), op @ Op::Controller { .. }) => t.add_controller(build_controller(op)),
            (Real::Tpm2(t), Op::Tpm2LogArea { min_len, base }) => t.set_log_area(*min_len, *base),
            (Real::TcpaServer(t), Op::Tcpa { call, a, b, gas: g }) => {
                let s = *t;
                *t = match call {
                    0 => s.log_area(*a, *b),
                    1 => s.active_low(),
                    2 => s.edge_triggered(),
                    3 => s.sci_gpe(*a as u8),
                    4 => s.gsi(*a as u32),
                    5 => s.bus_is_pnp(),
                    6 => s.pci_sbdf(*a as u8, (*a >> 8) as u8, (*a >> 16) as u8, (*a >> 24) as u8),
                    7 => s.base_addr(mk_gas(g.as_ref().unwrap())),
                    8 => s.config_addr(mk_gas(g.as_ref().unwrap())),
                    _ => panic!("harness: bad tcpa call"),
                };
            }
            (Real::Fadt(bld), Op::Fadt { call, a, b, c }) => {
                let s = *bld;
                *bld = match call {
                    0 => s.dsdt_32(*a as u32),
                    1 => s.dsdt_64(*a),
                    2 => s.firmware_ctrl_32(*a as u32),
                    3 => s.firmware_ctrl_64(*a),
                    4 => s.acpi_enable(),
                    5 => s.acpi_disable(),
                    6 => s.flag(fadt_flag(*a as usize)),
                    7 => s.gpe_info(*a as u32, *b as u32, *c as u8, (*c >> 8) as u8, (*c >> 16) as u8),
                    8 => s.preferred_pm_profile(pm_profile(*a as u8)),
                    9 => {
                        let mut s = s;
                        fadt_set_field(&mut s, *a as usize, *b);
                        s
                    }
                    _ => panic!("harness: bad fadt call"),
                };
            }
            (Real::Facs(f), Op::FacsSet { idx, v }) => facs_set_field(f, *idx as usize, *v),
            (Real::Sdt(t), Op::Sdt(s)) => apply_sdt(t, s),
            (_, o) => panic!("harness: op {:?} not valid for this table", o),
        }
        out
    }
}

fn proc_flag(n: pptt::ProcessorNode, f: u8) -> pptt::ProcessorNode {
    match f {
        0 => n.physical(),
        1 => n.valid(),
        2 => n.thread(),
        3 => n.leaf(),
        _ => n.identical(),
    }
}

pub fn apply_sdt(t: &mut Sdt, s: &SdtOp) {
    match s {
        SdtOp::AppendU8(v) => t.append(*v),
        SdtOp::AppendU16(v) => t.append(*v),
        SdtOp::AppendU32(v) => t.append(*v),
        SdtOp::AppendU64(v) => t.append(*v),
        SdtOp::AppendArr3(v) => t.append(*v),
        SdtOp::AppendSlice(v) => t.append_slice(v),
        SdtOp::WriteU8(o, v) => t.write_u8(*o, *v),
        SdtOp::WriteU16(o, v) => t.write_u16(*o, *v),
        SdtOp::WriteU32(o, v) => t.write_u32(*o, *v),
        SdtOp::WriteU64(o, v) => t.write_u64(*o, *v),
        SdtOp::WriteArr3(o, v) => t.write(*o, *v),
        SdtOp::WriteBytes(o, v) => t.write_bytes(*o, v),
        SdtOp::SinkByte(v) => AmlSink::byte(t, *v),
        SdtOp::SinkWord(v) => AmlSink::word(t, *v),
        SdtOp::SinkDword(v) => AmlSink::dword(t, *v),
        SdtOp::SinkQword(v) => AmlSink::qword(t, *v),
        SdtOp::SinkVec(v) => AmlSink::vec(t, v),
        SdtOp::UpdateChecksum => t.update_checksum(),
    }
}

type AerBuilt = (Option<(Vec<u8>, Vec<u8>)>, Box<dyn FnOnce(&mut hest::HEST)>);

pub fn build_aer(op: &Op) -> AerBuilt {
    if let Op::Aer { kind, ctor, sets } = op {
        let ff = |b: bool| if b { hest::FirmwareFirst::Enabled } else { hest::FirmwareFirst::Disabled };
        match kind {
            0 => {
                let mut s = match ctor {
                    None => hest::PcieAerRootPort::new_global(),
                    Some((f, b, d, fu)) => hest::PcieAerRootPort::new_root_port(ff(*f), hest::PciDevice::new(*b, *d, *fu)),
                };
                for (k, v) in sets {
                    s = match k {
                        0 => s.num_records(*v),
                        1 => s.max_sections(*v),
                        2 => s.device_control(*v as u16),
                        3 => s.uncorrectable_error_mask(*v),
                        4 => s.uncorrectable_error_severity(*v),
                        5 => s.correctable_error_mask(*v),
                        6 => s.aer_cap_ctrl(*v),
                        7 => s.root_error_command(*v),
                        _ => panic!("harness: bad aer setter"),
                    };
                }
                (raw_of!(s), Box::new(move |t| t.add_structure(s)))
            }
            1 => {
                let mut s = match ctor {
                    None => hest::PcieAerDevice::new_global(),
                    Some((f, b, d, fu)) => hest::PcieAerDevice::new_root_port(ff(*f), hest::PciDevice::new(*b, *d, *fu)),
                };
                for (k, v) in sets {
                    s = match k {
                        0 => s.num_records(*v),
                        1 => s.max_sections(*v),
                        2 => s.device_control(*v as u16),
                        3 => s.uncorrectable_error_mask(*v),
                        4 => s.uncorrectable_error_severity(*v),
                        5 => s.correctable_error_mask(*v),
                        6 => s.aer_cap_ctrl(*v),
                        _ => panic!("harness: bad aer setter"),
                    };
                }
                (raw_of!(s), Box::new(move |t| t.add_structure(s)))
            }
            _ => {
                let mut s = match ctor {
                    None => hest::PcieAerBridge::new_global(),
                    Some((f, b, d, fu)) => hest::PcieAerBridge::new_bridge(ff(*f), hest::PciDevice::new(*b, *d, *fu)),
                };
                for (k, v) in sets {
                    s = match k {
                        0 => s.num_records(*v),
                        1 => s.max_sections(*v),
                        2 => s.device_control(*v as u16),
                        3 => s.uncorrectable_error_mask(*v),
                        4 => s.uncorrectable_error_severity(*v),
                        5 => s.correctable_error_mask(*v),
                        6 => s.aer_cap_ctrl(*v),
                        7 => s.secondary_uncorrectable_error_mask(*v),
                        8 => s.secondary_uncorrectable_error_severity(*v),
                        9 => s.secondary_aer_cap_ctrl(*v),
                        _ => panic!("harness: bad aer setter"),
                    };
                }
                (raw_of!(s), Box::new(move |t| t.add_structure(s)))
            }
        }
    } else {
        unreachable!()
    }
}

/// The section-type field of `GenericErrorData` is assigned through this trait so that the harness
/// builds against the crate whichever width that pub field has (the specification says 16 bytes).
pub trait SectionTypeField {
    fn from_guid(g: [u8; 16]) -> Self;
}
impl SectionTypeField for u16 {
    fn from_guid(g: [u8; 16]) -> Self {
        u16::from_le_bytes([g[0], g[1]])
    }
}
impl SectionTypeField for [u8; 16] {
    fn from_guid(g: [u8; 16]) -> Self {
        g
    }
}

pub fn error_severity(i: u8) -> hest::ErrorSeverity {
    match i {
        0 => hest::ErrorSeverity::Recoverable,
        1 => hest::ErrorSeverity::Fatal,
        2 => hest::ErrorSeverity::Correctable,
        _ => hest::ErrorSeverity::None,
    }
}

pub fn build_error_data(a: &ErrDataArg) -> hest::GenericErrorData {
    let mut d = hest::GenericErrorData::new(error_severity(a.severity));
    d.section_type = SectionTypeField::from_guid(a.section_type);
    d.revision = a.revision;
    d.validation = a.validation;
    d.flags = a.flags;
    d.error_data_length = a.error_data_length;
    d.fru_id = a.fru_id;
    d.fru_text = a.fru_text;
    d.timestamp = a.timestamp;
    for g in &a.data {
        d.add_data(Box::new(mk_gas(g)));
        peek(&d, a.data.len() + a.flags as usize);
    }
    d
}
