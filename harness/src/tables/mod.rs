pub mod gen;
pub mod judge;
pub mod ops;
pub mod real;
pub mod reference;
pub mod walk;
