//! Oracle self-test vectors that do NOT come from the system under test: byte strings produced
//! by the iasl compiler, quoted next to their ASL source in the crate's own test module and
//! copied here as constants, plus ACPI specification examples. A wrong oracle is reported as an
//! oracle error (inconclusive), never as a crate violation.

use super::parse::parse_all;
use super::resref::{template_payload, walk_descriptors};
use super::term::*;

pub const COM1_DEVICE: [u8; 50] = [
    0x5B, 0x82, 0x30, 0x2E, 0x5F, 0x53, 0x42, 0x5F, 0x43, 0x4F, 0x4D, 0x31, 0x08, 0x5F, 0x48, 0x49, 0x44, 0x0C, 0x41, 0xD0, 0x05, 0x01, 0x08, 0x5F, 0x43, 0x52, 0x53, 0x11, 0x16,
    0x0A, 0x13, 0x89, 0x06, 0x00, 0x03, 0x01, 0x04, 0x00, 0x00, 0x00, 0x47, 0x01, 0xF8, 0x03, 0xF8, 0x03, 0x00, 0x08, 0x79, 0x00,
];
pub const MBRD_SCOPE: [u8; 34] = [
    0x10, 0x21, 0x2E, 0x5F, 0x53, 0x42, 0x5F, 0x4D, 0x42, 0x52, 0x44, 0x08, 0x5F, 0x43, 0x52, 0x53, 0x11, 0x11, 0x0A, 0x0E, 0x86, 0x09, 0x00, 0x01, 0x00, 0x00, 0x00, 0xE8, 0x00,
    0x00, 0x00, 0x10, 0x79, 0x00,
];
pub const FIELD_1: [u8; 37] = [
    0x5B, 0x81, 0x23, 0x50, 0x52, 0x53, 0x54, 0x41, 0x00, 0x20, 0x43, 0x50, 0x45, 0x4E, 0x01, 0x43, 0x49, 0x4E, 0x53, 0x01, 0x43, 0x52, 0x4D, 0x56, 0x01, 0x43, 0x45, 0x4A, 0x30,
    0x01, 0x00, 0x04, 0x43, 0x43, 0x4D, 0x44, 0x08,
];
pub const OP_REGION: [u8; 12] = [0x5B, 0x80, 0x50, 0x52, 0x53, 0x54, 0x01, 0x0B, 0xD8, 0x0C, 0x0A, 0x0C];
pub const ARG_IF: [u8; 16] = [0x14, 0x0F, 0x54, 0x45, 0x53, 0x54, 0x01, 0xA0, 0x06, 0x93, 0x68, 0x00, 0xA4, 0x01, 0xA4, 0x00];
pub const MUTEX_DEV: [u8; 53] = [
    0x5B, 0x82, 0x33, 0x2E, 0x5F, 0x53, 0x42, 0x5F, 0x4D, 0x48, 0x50, 0x43, 0x08, 0x5F, 0x48, 0x49, 0x44, 0x0C, 0x41, 0xD0, 0x0A, 0x06, 0x5B, 0x01, 0x4D, 0x4C, 0x43, 0x4B, 0x00,
    0x14, 0x17, 0x54, 0x45, 0x53, 0x54, 0x00, 0x5B, 0x23, 0x4D, 0x4C, 0x43, 0x4B, 0xFF, 0xFF, 0x70, 0x01, 0x60, 0x5B, 0x27, 0x4D, 0x4C, 0x43, 0x4B,
];
pub const WHILE_DEV: [u8; 42] = [
    0x5B, 0x82, 0x28, 0x2E, 0x5F, 0x53, 0x42, 0x5F, 0x4D, 0x48, 0x50, 0x43, 0x08, 0x5F, 0x48, 0x49, 0x44, 0x0C, 0x41, 0xD0, 0x0A, 0x06, 0x14, 0x13, 0x54, 0x45, 0x53, 0x54, 0x00,
    0x70, 0x00, 0x60, 0xA2, 0x09, 0x95, 0x60, 0x0A, 0x04, 0x72, 0x60, 0x01, 0x60,
];
pub const NOTIFY_DEV: [u8; 35] = [
    0x5B, 0x82, 0x21, 0x2E, 0x5F, 0x53, 0x42, 0x5F, 0x4D, 0x48, 0x50, 0x43, 0x08, 0x5F, 0x48, 0x49, 0x44, 0x0C, 0x41, 0xD0, 0x0A, 0x06, 0x14, 0x0C, 0x54, 0x45, 0x53, 0x54, 0x00,
    0x86, 0x4D, 0x48, 0x50, 0x43, 0x01,
];
pub const METHOD_CALLS: [u8; 25] = [
    0x14, 0x0C, 0x54, 0x53, 0x54, 0x31, 0x01, 0x54, 0x53, 0x54, 0x32, 0x01, 0x01, 0x14, 0x0B, 0x54, 0x53, 0x54, 0x32, 0x02, 0x54, 0x53, 0x54, 0x31, 0x01,
];
pub const WORD_BUS: [u8; 18] = [0x88, 0x0D, 0x00, 0x02, 0x0C, 0x00, 0x00, 0x00, 0x00, 0x00, 0xFF, 0x00, 0x00, 0x00, 0x00, 0x01, 0x79, 0x00];
pub const WORD_IO_X2: [u8; 34] = [
    0x88, 0x0D, 0x00, 0x01, 0x0C, 0x03, 0x00, 0x00, 0x00, 0x00, 0xF7, 0x0C, 0x00, 0x00, 0xF8, 0x0C, 0x88, 0x0D, 0x00, 0x01, 0x0C, 0x03, 0x00, 0x00, 0x00, 0x0D, 0xFF, 0xFF, 0x00,
    0x00, 0x00, 0xF3, 0x79, 0x00,
];
pub const DWORD_MEM_X2: [u8; 54] = [
    0x87, 0x17, 0x00, 0x00, 0x0C, 0x03, 0x00, 0x00, 0x00, 0x00, 0x00, 0x00, 0x0A, 0x00, 0xFF, 0xFF, 0x0B, 0x00, 0x00, 0x00, 0x00, 0x00, 0x00, 0x00, 0x02, 0x00, 0x87, 0x17, 0x00,
    0x00, 0x0C, 0x01, 0x00, 0x00, 0x00, 0x00, 0x00, 0x00, 0x00, 0xC0, 0xFF, 0xFF, 0xBF, 0xFE, 0x00, 0x00, 0x00, 0x00, 0x00, 0x00, 0xC0, 0x3E, 0x79, 0x00,
];
pub const QWORD_MEM: [u8; 48] = [
    0x8A, 0x2B, 0x00, 0x00, 0x0C, 0x03, 0x00, 0x00, 0x00, 0x00, 0x00, 0x00, 0x00, 0x00, 0x00, 0x00, 0x00, 0x00, 0x08, 0x00, 0x00, 0x00, 0xFF, 0xFF, 0xFF, 0xFF, 0x0F, 0x00, 0x00,
    0x00, 0x00, 0x00, 0x00, 0x00, 0x00, 0x00, 0x00, 0x00, 0x00, 0x00, 0x00, 0x00, 0x08, 0x00, 0x00, 0x00, 0x79, 0x00,
];
pub const IRQ_IO: [u8; 19] = [0x89, 0x06, 0x00, 0x03, 0x01, 0x04, 0x00, 0x00, 0x00, 0x47, 0x01, 0xF8, 0x03, 0xF8, 0x03, 0x00, 0x08, 0x79, 0x00];

fn seg(s: &str) -> [u8; 4] {
    let b = s.as_bytes();
    [b[0], b[1], b[2], b[3]]
}
fn path(root: bool, segs: &[&str]) -> PathT {
    PathT { root, segs: segs.iter().map(|s| seg(s)).collect() }
}

/// Returns Err(description) when an oracle disagrees with a crate-independent vector.
pub fn selftest() -> Result<usize, String> {
    let mut n = 0usize;
    let no_calls = |_: &PathT| None;
    let tst_calls = |p: &PathT| match &p.segs.last().unwrap()[..] {
        b"TST1" => Some(1),
        b"TST2" => Some(2),
        _ => None,
    };
    // --- parser: must consume each iasl stream completely
    let streams: [(&str, &[u8]); 8] = [
        ("COM1 device", &COM1_DEVICE),
        ("MBRD scope", &MBRD_SCOPE),
        ("field", &FIELD_1),
        ("opregion", &OP_REGION),
        ("arg-if method", &ARG_IF),
        ("mutex device", &MUTEX_DEV),
        ("while device", &WHILE_DEV),
        ("notify device", &NOTIFY_DEV),
    ];
    for (name, s) in streams {
        parse_all(s, &no_calls).map_err(|e| format!("parser rejects iasl vector '{}': {}", name, e))?;
        n += 1;
    }
    // --- parser: exact trees for hand-decoded vectors
    let b = |p: P| Box::new(p);
    let irq_io = vec![Res::Irq { consumer: true, edge: true, low: false, shared: false, num: 4 }, Res::Io { min: 0x3f8, max: 0x3f8, align: 0, len: 8 }];
    let expect_com1 = P::Device(
        path(false, &["_SB_", "COM1"]),
        vec![
            P::Name(path(false, &["_HID"]), b(P::Int { v: 0x0105D041, width: 4 })),
            P::Name(path(false, &["_CRS"]), b(P::Buffer { size: b(P::Int { v: 0x13, width: 1 }), bytes: IRQ_IO.to_vec() })),
        ],
    );
    let (got, _) = parse_all(&COM1_DEVICE, &no_calls)?;
    if got != vec![expect_com1] {
        return Err(format!("parser tree for COM1 device differs: {:?}", got));
    }
    n += 1;
    let expect_field = P::Field {
        path: path(false, &["PRST"]),
        flags: 0x41,
        entries: vec![(None, 32), (Some(seg("CPEN")), 1), (Some(seg("CINS")), 1), (Some(seg("CRMV")), 1), (Some(seg("CEJ0")), 1), (None, 4), (Some(seg("CCMD")), 8)],
    };
    if parse_all(&FIELD_1, &no_calls)?.0 != vec![expect_field] {
        return Err("parser tree for Field vector differs".into());
    }
    n += 1;
    let expect_argif = P::Method {
        path: path(false, &["TEST"]),
        flags: 1,
        body: vec![
            P::If(b(P::Logic { op: 0x93, not: false, a: b(P::Arg(0)), b: b(P::Int { v: 0, width: 0 }) }), vec![P::Op1(0xA4, b(P::Int { v: 1, width: 0 }))]),
            P::Op1(0xA4, b(P::Int { v: 0, width: 0 })),
        ],
    };
    if parse_all(&ARG_IF, &no_calls)?.0 != vec![expect_argif] {
        return Err("parser tree for arg-if method differs".into());
    }
    n += 1;
    let expect_while = P::While(
        b(P::Logic { op: 0x95, not: false, a: b(P::Local(0)), b: b(P::Int { v: 4, width: 1 }) }),
        vec![P::Op3(0x72, b(P::Local(0)), b(P::Int { v: 1, width: 0 }), b(P::Local(0)))],
    );
    match &parse_all(&WHILE_DEV, &no_calls)?.0[..] {
        [P::Device(_, ch)] => match &ch[1] {
            P::Method { body, .. } if body.len() == 2 && body[1] == expect_while && body[0] == P::Store(b(P::Int { v: 0, width: 0 }), b(P::Local(0))) => {}
            other => return Err(format!("parser tree for while vector differs: {:?}", other)),
        },
        other => return Err(format!("parser tree for while vector differs: {:?}", other)),
    }
    n += 1;
    let calls = parse_all(&METHOD_CALLS, &tst_calls)?.0;
    let one = || P::Int { v: 1, width: 0 };
    let expect_calls = vec![
        P::Method { path: path(false, &["TST1"]), flags: 1, body: vec![P::Call(path(false, &["TST2"]), vec![one(), one()])] },
        P::Method { path: path(false, &["TST2"]), flags: 2, body: vec![P::Call(path(false, &["TST1"]), vec![one()])] },
    ];
    if calls != expect_calls {
        return Err(format!("parser tree for method-call vector differs: {:?}", calls));
    }
    n += 1;
    match &parse_all(&MUTEX_DEV, &no_calls)?.0[..] {
        [P::Device(_, ch)] if ch.len() == 3 => {
            if ch[1] != P::Mutex(path(false, &["MLCK"]), 0) {
                return Err("parser: mutex vector".into());
            }
            match &ch[2] {
                P::Method { body, .. } if body[0] == P::Acquire(path(false, &["MLCK"]), 0xffff) && body[2] == P::Release(path(false, &["MLCK"])) => {}
                _ => return Err("parser: acquire/release vector".into()),
            }
        }
        _ => return Err("parser: mutex device vector".into()),
    }
    n += 1;
    if parse_all(&OP_REGION, &no_calls)?.0 != vec![P::OpRegion { path: path(false, &["PRST"]), space: 1, off: b(P::Int { v: 0xcd8, width: 2 }), len: b(P::Int { v: 0xc, width: 1 }) }] {
        return Err("parser: opregion vector".into());
    }
    n += 1;
    // --- parser must reject corrupted streams
    let mut bad = COM1_DEVICE.to_vec();
    bad[2] += 1; // device PkgLength one too long
    if parse_all(&bad, &no_calls).is_ok() {
        return Err("parser accepts a Device whose PkgLength overruns the stream".into());
    }
    let mut bad = COM1_DEVICE.to_vec();
    bad[2] -= 1;
    if parse_all(&bad, &no_calls).is_ok() {
        return Err("parser accepts a Device whose PkgLength is one short".into());
    }
    n += 2;
    // --- reference resource encoder against iasl output
    let as16 = |ty: u8, min: u64, max: u64| Res::AddrSpace { w: AsWidth::W16, ty, cache: 0, rw: false, min, max, trans: None };
    let cases: Vec<(&str, Vec<Res>, &[u8])> = vec![
        ("interrupt+io", irq_io.clone(), &IRQ_IO),
        ("word bus", vec![as16(2, 0, 0xff)], &WORD_BUS),
        ("word io x2", vec![as16(1, 0, 0xcf7), as16(1, 0xd00, 0xffff)], &WORD_IO_X2),
        (
            "dword memory x2",
            vec![
                Res::AddrSpace { w: AsWidth::W32, ty: 0, cache: 1, rw: true, min: 0xa_0000, max: 0xb_ffff, trans: None },
                Res::AddrSpace { w: AsWidth::W32, ty: 0, cache: 0, rw: true, min: 0xc000_0000, max: 0xfebf_ffff, trans: None },
            ],
            &DWORD_MEM_X2,
        ),
        ("qword memory", vec![Res::AddrSpace { w: AsWidth::W64, ty: 0, cache: 1, rw: true, min: 0x8_0000_0000, max: 0xf_ffff_ffff, trans: None }], &QWORD_MEM),
        ("memory32fixed", vec![Res::Mem32 { rw: true, base: 0xE800_0000, len: 0x1000_0000 }], &MBRD_SCOPE[20..34]),
    ];
    for (name, rs, want) in cases {
        let got = template_payload(&rs);
        if got != want {
            return Err(format!("reference descriptor encoder disagrees with iasl for '{}': {:02x?} vs {:02x?}", name, got, want));
        }
        let w = walk_descriptors(&got).map_err(|e| format!("descriptor walker rejects iasl payload '{}': {}", name, e))?;
        if w.len() != rs.len() + 1 {
            return Err(format!("descriptor walker finds {} descriptors in '{}'", w.len(), name));
        }
        n += 1;
    }
    // generic register descriptor: ACPI 6.5 §6.4.3.7, length field is 0x000C
    let reg = template_payload(&[Res::Reg(GasArgEq { space: 0, width: 8, offset: 0, access: 1, addr: 0x1234 })]);
    if reg[..3] != [0x82, 0x0C, 0x00] || reg.len() != 17 {
        return Err("reference register descriptor".into());
    }
    // --- EISA id and UUID (ACPI spec examples)
    if eisa_value("PNP0501") != 0x0105D041 || eisa_value("PNP0A06") != 0x060AD041 {
        return Err("reference EISA compression disagrees with iasl vectors".into());
    }
    // ToUUID example: "3DB76787-8A1A-4D5B-8A29-6F6B7AC1FB1C" hmm: use the well-known _DSM PCI UUID
    // E5C937D0-3553-4D7A-9117-EA4D19C3434D -> D0 37 C9 E5 53 35 7A 4D 91 17 EA 4D 19 C3 43 4D
    if uuid_bytes("E5C937D0-3553-4D7A-9117-EA4D19C3434D") != vec![0xD0, 0x37, 0xC9, 0xE5, 0x53, 0x35, 0x7A, 0x4D, 0x91, 0x17, 0xEA, 0x4D, 0x19, 0xC3, 0x43, 0x4D] {
        return Err("reference ToUUID byte order".into());
    }
    n += 3;
    Ok(n)
}
