//! Independent AML parser following the ACPI 6.5 §20.2 grammar (Appendix C of DESIGN.md).
//! The opcode table below is written from the specification, not from the crate. The parser is
//! told only the arity of invoked methods. Every PkgLength opens a window that its children
//! must fill exactly.

use super::term::{PathT, P};

pub type Arity<'a> = &'a dyn Fn(&PathT) -> Option<usize>;

pub struct Parser<'a> {
    pub b: &'a [u8],
    pub arity: Arity<'a>,
    /// (opcode-ish label, PkgLength follow-byte count) for every length-delimited object seen
    pub windows: Vec<(&'static str, u8, usize)>,
}

type R<T> = Result<T, String>;

pub fn decode_pkg_length(b: &[u8], at: usize) -> R<(usize, usize)> {
    let lead = *b.get(at).ok_or_else(|| format!("PkgLength at {} beyond end", at))?;
    let k = (lead >> 6) as usize;
    if k == 0 {
        return Ok(((lead & 0x3f) as usize, 1));
    }
    if lead & 0x30 != 0 {
        return Err(format!("PkgLength lead byte {:#04x} at {}: reserved bits 5-4 set in a multi-byte encoding", lead, at));
    }
    if at + k >= b.len() {
        return Err(format!("PkgLength at {} needs {} follow bytes beyond end", at, k));
    }
    let mut v = (lead & 0x0f) as usize;
    for i in 0..k {
        v |= (b[at + 1 + i] as usize) << (4 + 8 * i);
    }
    Ok((v, k + 1))
}

fn is_lead(c: u8) -> bool {
    c.is_ascii_uppercase() || c == b'_'
}
fn is_name_char(c: u8) -> bool {
    is_lead(c) || c.is_ascii_digit()
}

impl<'a> Parser<'a> {
    pub fn new(b: &'a [u8], arity: Arity<'a>) -> Self {
        Parser { b, arity, windows: Vec::new() }
    }

    fn byte(&self, at: usize, end: usize) -> R<u8> {
        if at >= end {
            Err(format!("unexpected end of window at {}", at))
        } else {
            Ok(self.b[at])
        }
    }

    fn seg(&self, at: usize, end: usize) -> R<[u8; 4]> {
        if at + 4 > end {
            return Err(format!("NameSeg at {} truncated", at));
        }
        let s = [self.b[at], self.b[at + 1], self.b[at + 2], self.b[at + 3]];
        if !is_lead(s[0]) || !s[1..].iter().all(|c| is_name_char(*c)) {
            return Err(format!("invalid NameSeg {:02x?} at {}", s, at));
        }
        Ok(s)
    }

    /// NameString := [RootChar | PrefixPath] (NameSeg | DualNamePath | MultiNamePath | NullName)
    pub fn name_string(&self, mut at: usize, end: usize) -> R<(PathT, usize)> {
        let mut root = false;
        if self.byte(at, end)? == b'\\' {
            root = true;
            at += 1;
        } else if self.byte(at, end)? == b'^' {
            return Err(format!("parent-prefix NameString at {} (never produced by the constructors)", at));
        }
        let c = self.byte(at, end)?;
        let (n, mut at) = match c {
            0x2E => (2usize, at + 1),
            0x2F => {
                let n = self.byte(at + 1, end)? as usize;
                if n == 0 {
                    return Err(format!("MultiNamePath at {} with SegCount 0", at));
                }
                (n, at + 2)
            }
            0x00 => return Err(format!("NullName at {} where a name is required", at)),
            _ => (1usize, at),
        };
        let mut segs = Vec::with_capacity(n);
        for _ in 0..n {
            segs.push(self.seg(at, end)?);
            at += 4;
        }
        Ok((PathT { root, segs }, at))
    }

    fn open(&mut self, label: &'static str, at: usize, end: usize) -> R<(usize, usize)> {
        // returns (content start, window end)
        let (len, n) = decode_pkg_length(self.b, at)?;
        if len < n {
            return Err(format!("{} at {}: PkgLength {} smaller than its own {} bytes", label, at, len, n));
        }
        let wend = at + len;
        if wend > end {
            return Err(format!("{} at {}: PkgLength {} runs past the enclosing window/end ({} > {})", label, at, len, wend, end));
        }
        self.windows.push((label, (n - 1) as u8, len));
        Ok((at + n, wend))
    }

    pub fn term_list(&mut self, mut at: usize, end: usize) -> R<Vec<P>> {
        let mut v = Vec::new();
        while at < end {
            let (t, n) = self.term(at, end)?;
            v.push(t);
            at = n;
        }
        if at != end {
            return Err(format!("children overrun their window: at {} end {}", at, end));
        }
        Ok(v)
    }

    fn int(&self, at: usize, end: usize, w: usize) -> R<(P, usize)> {
        if at + 1 + w > end {
            return Err(format!("integer constant at {} truncated", at));
        }
        let mut v = 0u64;
        for i in 0..w {
            v |= (self.b[at + 1 + i] as u64) << (8 * i);
        }
        Ok((P::Int { v, width: w as u8 }, at + 1 + w))
    }

    /// Parse one term (TermObj / TermArg / SuperName / DataRefObject) starting at `at`.
    pub fn term(&mut self, at: usize, end: usize) -> R<(P, usize)> {
        let op = self.byte(at, end)?;
        macro_rules! t {
            ($p:expr) => {{
                let (x, n) = self.term($p, end)?;
                (Box::new(x), n)
            }};
        }
        match op {
            0x00 => Ok((P::Int { v: 0, width: 0 }, at + 1)),
            0x01 => Ok((P::Int { v: 1, width: 0 }, at + 1)),
            0xFF => Ok((P::Ones, at + 1)),
            0x0A => self.int(at, end, 1),
            0x0B => self.int(at, end, 2),
            0x0C => self.int(at, end, 4),
            0x0E => self.int(at, end, 8),
            0x0D => {
                let mut p = at + 1;
                while p < end && self.b[p] != 0 {
                    if self.b[p] > 0x7f {
                        return Err(format!("non-ASCII byte {:#x} in string at {}", self.b[p], p));
                    }
                    p += 1;
                }
                if p >= end {
                    return Err(format!("unterminated string at {}", at));
                }
                Ok((P::Str(self.b[at + 1..p].to_vec()), p + 1))
            }
            0x08 => {
                let (path, p) = self.name_string(at + 1, end)?;
                let (d, n) = t!(p);
                Ok((P::Name(path, d), n))
            }
            0x10 => {
                let (c, wend) = self.open("Scope", at + 1, end)?;
                let (path, p) = self.name_string(c, wend)?;
                Ok((P::Scope(path, self.term_list(p, wend)?), wend))
            }
            0x11 => {
                let (c, wend) = self.open("Buffer", at + 1, end)?;
                let (x, n) = self.term(c, wend)?;
                Ok((P::Buffer { size: Box::new(x), bytes: self.b[n..wend].to_vec() }, wend))
            }
            0x12 => {
                let (c, wend) = self.open("Package", at + 1, end)?;
                let n = self.byte(c, wend)?;
                Ok((P::Package { n, elems: self.term_list(c + 1, wend)? }, wend))
            }
            0x13 => {
                let (c, wend) = self.open("VarPackage", at + 1, end)?;
                let (x, n) = self.term(c, wend)?;
                Ok((P::VarPackage { n: Box::new(x), elems: self.term_list(n, wend)? }, wend))
            }
            0x14 => {
                let (c, wend) = self.open("Method", at + 1, end)?;
                let (path, p) = self.name_string(c, wend)?;
                let flags = self.byte(p, wend)?;
                Ok((P::Method { path, flags, body: self.term_list(p + 1, wend)? }, wend))
            }
            0x5B => {
                let e = self.byte(at + 1, end)?;
                match e {
                    0x01 => {
                        let (path, p) = self.name_string(at + 2, end)?;
                        Ok((P::Mutex(path, self.byte(p, end)?), p + 1))
                    }
                    0x13 => {
                        let (src, p) = t!(at + 2);
                        let (idx, p) = t!(p);
                        let (nbits, p) = t!(p);
                        let (name, p) = t!(p);
                        Ok((P::CreateField { src, idx, nbits, name }, p))
                    }
                    0x23 => {
                        let (path, p) = self.name_string(at + 2, end)?;
                        if p + 2 > end {
                            return Err(format!("Acquire timeout at {} truncated", p));
                        }
                        Ok((P::Acquire(path, self.b[p] as u16 | ((self.b[p + 1] as u16) << 8)), p + 2))
                    }
                    0x27 => {
                        let (path, p) = self.name_string(at + 2, end)?;
                        Ok((P::Release(path), p))
                    }
                    0x80 => {
                        let (path, p) = self.name_string(at + 2, end)?;
                        let space = self.byte(p, end)?;
                        let (off, p) = t!(p + 1);
                        let (len, p) = t!(p);
                        Ok((P::OpRegion { path, space, off, len }, p))
                    }
                    0x81 => {
                        let (c, wend) = self.open("Field", at + 2, end)?;
                        let (path, p) = self.name_string(c, wend)?;
                        let flags = self.byte(p, wend)?;
                        let mut p = p + 1;
                        let mut entries = Vec::new();
                        while p < wend {
                            if self.b[p] == 0x00 {
                                let (w, n) = decode_pkg_length(self.b, p + 1)?;
                                if p + 1 + n > wend {
                                    return Err(format!("reserved field at {} overruns the field list", p));
                                }
                                entries.push((None, w as u64));
                                p += 1 + n;
                            } else {
                                let s = self.seg(p, wend)?;
                                let (w, n) = decode_pkg_length(self.b, p + 4)?;
                                if p + 4 + n > wend {
                                    return Err(format!("named field at {} overruns the field list", p));
                                }
                                entries.push((Some(s), w as u64));
                                p += 4 + n;
                            }
                        }
                        Ok((P::Field { path, flags, entries }, wend))
                    }
                    0x82 => {
                        let (c, wend) = self.open("Device", at + 2, end)?;
                        let (path, p) = self.name_string(c, wend)?;
                        Ok((P::Device(path, self.term_list(p, wend)?), wend))
                    }
                    0x84 => {
                        let (c, wend) = self.open("PowerResource", at + 2, end)?;
                        let (path, p) = self.name_string(c, wend)?;
                        if p + 3 > wend {
                            return Err(format!("PowerResource at {} truncated", at));
                        }
                        let level = self.b[p];
                        let order = self.b[p + 1] as u16 | ((self.b[p + 2] as u16) << 8);
                        Ok((P::PowerRes { path, level, order, body: self.term_list(p + 3, wend)? }, wend))
                    }
                    x => Err(format!("unknown extended opcode 5B {:02x} at {}", x, at)),
                }
            }
            0x60..=0x67 => Ok((P::Local(op - 0x60), at + 1)),
            0x68..=0x6E => Ok((P::Arg(op - 0x68), at + 1)),
            0x70 => {
                let (src, p) = t!(at + 1);
                let (dst, p) = t!(p);
                Ok((P::Store(src, dst), p))
            }
            // op a b target
            0x72 | 0x73 | 0x74 | 0x77 | 0x79 | 0x7A | 0x7B | 0x7C | 0x7D | 0x7E | 0x7F | 0x84 | 0x85 | 0x88 | 0x9C | 0x8A | 0x8F => {
                let (a, p) = t!(at + 1);
                let (b, p) = t!(p);
                let (c, p) = t!(p);
                Ok((P::Op3(op, a, b, c), p))
            }
            0x83 | 0x87 | 0x8E | 0xA4 => {
                let (a, p) = t!(at + 1);
                Ok((P::Op1(op, a), p))
            }
            0x96 | 0x99 => {
                let (a, p) = t!(at + 1);
                let (b, p) = t!(p);
                Ok((P::Op2(op, a, b), p))
            }
            0x86 => {
                let (a, p) = t!(at + 1);
                let (b, p) = t!(p);
                Ok((P::Notify(a, b), p))
            }
            0x92 => {
                let o2 = self.byte(at + 1, end)?;
                if !(0x93..=0x95).contains(&o2) {
                    return Err(format!("LNot at {} followed by {:#x}: plain LNot is not produced by any constructor", at, o2));
                }
                let (a, p) = t!(at + 2);
                let (b, p) = t!(p);
                Ok((P::Logic { op: o2, not: true, a, b }, p))
            }
            0x93..=0x95 => {
                let (a, p) = t!(at + 1);
                let (b, p) = t!(p);
                Ok((P::Logic { op, not: false, a, b }, p))
            }
            0x9E => {
                let (src, p) = t!(at + 1);
                let (idx, p) = t!(p);
                let (len, p) = t!(p);
                let (target, p) = t!(p);
                Ok((P::Mid { src, idx, len, target }, p))
            }
            0xA0 => {
                let (c, wend) = self.open("If", at + 1, end)?;
                let (pred, p) = self.term(c, wend)?;
                Ok((P::If(Box::new(pred), self.term_list(p, wend)?), wend))
            }
            0xA1 => {
                let (c, wend) = self.open("Else", at + 1, end)?;
                Ok((P::Else(self.term_list(c, wend)?), wend))
            }
            0xA2 => {
                let (c, wend) = self.open("While", at + 1, end)?;
                let (pred, p) = self.term(c, wend)?;
                Ok((P::While(Box::new(pred), self.term_list(p, wend)?), wend))
            }
            c if c == b'\\' || c == 0x2E || c == 0x2F || is_lead(c) => {
                let (path, mut p) = self.name_string(at, end)?;
                match (self.arity)(&path) {
                    Some(n) if n > 0 => {
                        let mut args = Vec::new();
                        for _ in 0..n {
                            let (a, np) = self.term(p, end)?;
                            args.push(a);
                            p = np;
                        }
                        Ok((P::Call(path, args), p))
                    }
                    _ => Ok((P::NameRef(path), p)),
                }
            }
            x => Err(format!("unknown opcode {:#04x} at {}", x, at)),
        }
    }
}

/// Parse a complete byte stream as a list of terms; all bytes must be consumed.
pub fn parse_all(b: &[u8], arity: Arity) -> Result<(Vec<P>, Vec<(&'static str, u8, usize)>), String> {
    let mut p = Parser::new(b, arity);
    let v = p.term_list(0, b.len())?;
    Ok((v, p.windows))
}
