//! Reference encoder and walker for resource descriptors (ACPI 6.5 §6.4), offset-addressed.

use super::term::{AsWidth, Res};
use crate::tables::reference::{gas, put, put_bytes};

pub fn descriptor(r: &Res) -> Vec<u8> {
    match r {
        Res::Mem32 { rw, base, len } => {
            // §6.4.3.4 32-bit fixed memory range: tag 0x86, length 9
            let mut e = vec![0u8; 12];
            put(&mut e, 0, 1, 0x86);
            put(&mut e, 1, 2, 9);
            put(&mut e, 3, 1, *rw as u64);
            put(&mut e, 4, 4, *base as u64);
            put(&mut e, 8, 4, *len as u64);
            e
        }
        Res::Io { min, max, align, len } => {
            // §6.4.2.5 I/O port: small item, name 0x8, length 7 -> tag 0x47
            let mut e = vec![0u8; 8];
            put(&mut e, 0, 1, 0x47);
            put(&mut e, 1, 1, 1); // 16-bit decode
            put(&mut e, 2, 2, *min as u64);
            put(&mut e, 4, 2, *max as u64);
            put(&mut e, 6, 1, *align as u64);
            put(&mut e, 7, 1, *len as u64);
            e
        }
        Res::Irq { consumer, edge, low, shared, num } => {
            // §6.4.3.6 extended interrupt: tag 0x89, length 2 + 4*count
            let mut e = vec![0u8; 9];
            put(&mut e, 0, 1, 0x89);
            put(&mut e, 1, 2, 6);
            put(&mut e, 3, 1, (*consumer as u64) | ((*edge as u64) << 1) | ((*low as u64) << 2) | ((*shared as u64) << 3));
            put(&mut e, 4, 1, 1);
            put(&mut e, 5, 4, *num as u64);
            e
        }
        Res::Reg(g) => {
            // §6.4.3.7 generic register: tag 0x82, length 12
            let mut e = vec![0u8; 15];
            put(&mut e, 0, 1, 0x82);
            put(&mut e, 1, 2, 12);
            put_bytes(&mut e, 3, &gas(&g.to_arg()));
            e
        }
        Res::AddrSpace { w, ty, cache, rw, min, max, trans } => {
            // §6.4.3.5 address space descriptors
            let (tag, fw) = match w {
                AsWidth::W16 => (0x88u64, 2usize),
                AsWidth::W32 => (0x87, 4),
                AsWidth::W64 => (0x8A, 8),
            };
            let payload = 3 + 5 * fw;
            let mut e = vec![0u8; 3 + payload];
            put(&mut e, 0, 1, tag);
            put(&mut e, 1, 2, payload as u64);
            put(&mut e, 3, 1, *ty as u64);
            put(&mut e, 4, 1, (1 << 2) | (1 << 3)); // min and max address fixed
            let tf = match ty {
                0 => ((*cache as u64) << 1) | *rw as u64,
                1 => 3, // entire range
                _ => 0,
            };
            put(&mut e, 5, 1, tf);
            put(&mut e, 6, fw, 0); // granularity
            put(&mut e, 6 + fw, fw, *min);
            put(&mut e, 6 + 2 * fw, fw, *max);
            put(&mut e, 6 + 3 * fw, fw, trans.unwrap_or(0));
            put(&mut e, 6 + 4 * fw, fw, max.wrapping_sub(*min).wrapping_add(1));
            e
        }
    }
}

pub fn template_payload(rs: &[Res]) -> Vec<u8> {
    let mut b = Vec::new();
    for r in rs {
        b.extend_from_slice(&descriptor(r));
    }
    b.push(0x79);
    b.push(0x00);
    b
}

/// Walk a resource-template payload by the descriptors' own length fields (small item: length
/// in bits 2:0 of the tag; large item: 16-bit length after the tag). Must tile the payload
/// exactly and end on the end tag. Returns (tag, offset, total length) per descriptor.
pub fn walk_descriptors(p: &[u8]) -> Result<Vec<(u8, usize, usize)>, String> {
    let mut out = Vec::new();
    let mut o = 0usize;
    while o < p.len() {
        let tag = p[o];
        let total = if tag & 0x80 == 0 {
            1 + (tag & 7) as usize
        } else {
            if o + 3 > p.len() {
                return Err(format!("large descriptor header at {} truncated", o));
            }
            3 + (p[o + 1] as usize | ((p[o + 2] as usize) << 8))
        };
        if o + total > p.len() {
            return Err(format!("descriptor {:#x} at {} declares {} bytes, {} remain", tag, o, total, p.len() - o));
        }
        out.push((tag, o, total));
        let is_end = tag & 0x80 == 0 && (tag >> 3) & 0xf == 0xF;
        o += total;
        if is_end {
            if o != p.len() {
                return Err(format!("end tag at {} is not the last descriptor ({} bytes follow)", o - total, p.len() - o));
            }
            return Ok(out);
        }
    }
    Err("payload does not end with an end tag".into())
}
