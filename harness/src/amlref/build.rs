//! Term -> real crate objects -> bytes. Children are real borrowed crate objects kept alive
//! in a per-tree arena (native mode) or byte-replaying `Raw` values (pre-serialised mode).

use super::term::*;
use crate::sinks::to_vec;
use crate::tables::real::mk_gas;
use acpi_tables::aml;
use acpi_tables::{Aml, AmlSink};

/// An `Aml` value that replays previously observed bytes.
pub struct Raw(pub Vec<u8>);
impl Aml for Raw {
    fn to_aml_bytes(&self, sink: &mut dyn AmlSink) {
        sink.vec(&self.0);
    }
}

/// Owns every crate object of one tree; frees them in reverse creation order (children are
/// created before the parents that borrow them).
pub struct Arena {
    objs: Vec<*mut (dyn Aml + 'static)>,
}

impl Arena {
    pub fn new() -> Self {
        Arena { objs: Vec::new() }
    }
    /// Store `t` and hand back a reference that stays valid until the arena is dropped.
    /// SAFETY contract (harness-internal): the returned reference, and any object built from
    /// it, must not outlive the arena; objects are dropped in reverse order of creation.
    fn add<'x, T: Aml + 'x>(&mut self, t: T) -> &'x dyn Aml {
        let b: Box<dyn Aml + 'x> = Box::new(t);
        let p: *mut (dyn Aml + 'x) = Box::into_raw(b);
        // erase the borrow lifetime for storage only
        let ps: *mut (dyn Aml + 'static) = unsafe { std::mem::transmute(p) };
        self.objs.push(ps);
        unsafe { &*p }
    }
    pub fn len(&self) -> usize {
        self.objs.len()
    }
}

impl Drop for Arena {
    fn drop(&mut self) {
        while let Some(p) = self.objs.pop() {
            unsafe { drop(Box::from_raw(p)) };
        }
    }
}

pub fn mk_path(p: &PathT) -> aml::Path {
    // both public conversions are exercised: `Path::new` and `From<&str>`
    let s = p.to_string();
    if p.segs.len() % 2 == 0 {
        aml::Path::new(&s)
    } else {
        s.as_str().into()
    }
}

/// Interned leak: each distinct string content is leaked once per process.
fn leak_str(s: &str) -> &'static str {
    use std::collections::HashMap;
    use std::sync::{Mutex, OnceLock};
    static POOL: OnceLock<Mutex<HashMap<String, &'static str>>> = OnceLock::new();
    let mut m = POOL.get_or_init(|| Mutex::new(HashMap::new())).lock().unwrap();
    if let Some(l) = m.get(s) {
        return l;
    }
    let l: &'static str = Box::leak(s.to_string().into_boxed_str());
    m.insert(s.to_string(), l);
    l
}

pub fn field_access(a: u8) -> aml::FieldAccessType {
    use aml::FieldAccessType::*;
    [Any, Byte, Word, DWord, QWord, Buffer][a as usize]
}
pub fn op_region_space(s: u8) -> aml::OpRegionSpace {
    use aml::OpRegionSpace::*;
    [SystemMemory, SystemIO, PCIConfig, EmbeddedControl, SMBus, SystemCMOS, PciBarTarget, IPMI, GeneralPurposeIO, GenericSerialBus][s as usize]
}
pub fn cacheable(c: u8) -> aml::AddressSpaceCacheable {
    use aml::AddressSpaceCacheable::*;
    [NotCacheable, Cacheable, WriteCombining, PreFetchable][c as usize]
}

pub struct Builder {
    pub arena: Arena,
    /// true: children are handed to parents as byte-replaying values
    pub preserialise: bool,
}

impl Builder {
    pub fn new(preserialise: bool) -> Self {
        Builder { arena: Arena::new(), preserialise }
    }

    fn child<'x>(&mut self, t: &Term) -> &'x dyn Aml {
        let o = self.obj(t);
        if self.preserialise {
            let bytes = to_vec(o);
            self.arena.add(Raw(bytes))
        } else {
            o
        }
    }
    fn children<'x>(&mut self, v: &[Term]) -> Vec<&'x dyn Aml> {
        v.iter().map(|t| self.child(t)).collect()
    }

    pub fn res<'x>(&mut self, r: &Res) -> &'x dyn Aml {
        match r {
            Res::Mem32 { rw, base, len } => self.arena.add(aml::Memory32Fixed::new(*rw, *base, *len)),
            Res::Io { min, max, align, len } => self.arena.add(aml::IO::new(*min, *max, *align, *len)),
            Res::Irq { consumer, edge, low, shared, num } => self.arena.add(aml::Interrupt::new(*consumer, *edge, *low, *shared, *num)),
            Res::Reg(g) => self.arena.add(aml::Register::new(mk_gas(&g.to_arg()))),
            Res::AddrSpace { w, ty, cache, rw, min, max, trans } => {
                macro_rules! mk {
                    ($t:ty) => {{
                        let (mn, mx, tr) = (*min as $t, *max as $t, trans.map(|t| t as $t));
                        match ty {
                            0 => aml::AddressSpace::<$t>::new_memory(cacheable(*cache), *rw, mn, mx, tr),
                            1 => aml::AddressSpace::<$t>::new_io(mn, mx, tr),
                            _ => aml::AddressSpace::<$t>::new_bus_number(mn, mx),
                        }
                    }};
                }
                match w {
                    AsWidth::W16 => self.arena.add(mk!(u16)),
                    AsWidth::W32 => self.arena.add(mk!(u32)),
                    AsWidth::W64 => self.arena.add(mk!(u64)),
                }
            }
        }
    }

    /// Build the real crate object for `t` (children first) and return it.
    pub fn obj<'x>(&mut self, t: &Term) -> &'x dyn Aml {
        match t {
            Term::Zero => self.arena.add(aml::Zero {}),
            Term::One => self.arena.add(aml::One {}),
            Term::Ones => self.arena.add(aml::Ones {}),
            Term::U8(v) => self.arena.add(*v),
            Term::U16(v) => self.arena.add(*v),
            Term::U32(v) => self.arena.add(*v),
            Term::U64(v) => self.arena.add(*v),
            Term::Usize(v) => self.arena.add(*v),
            Term::Str(s) => self.arena.add(s.clone()),
            Term::StaticStr(s) => {
                let l: &'static str = leak_str(s);
                self.arena.add(l)
            }
            Term::Path(p) => self.arena.add(mk_path(p)),
            Term::FieldName(s) => self.arena.add(aml::Name::new_field_name(std::str::from_utf8(s).unwrap())),
            Term::Empty => self.arena.add(aml::Name::new_field_name("")),
            Term::Name(p, d) => {
                let c = self.child(d);
                self.arena.add(aml::Name::new(mk_path(p), c))
            }
            Term::Package(v) => {
                let cs = self.children(v);
                self.arena.add(aml::Package::new(cs))
            }
            Term::PackageBuilder(v) => {
                let cs = self.children(v);
                // both ways of obtaining an empty builder are exercised
                let mut pb = if cs.len() % 2 == 0 { aml::PackageBuilder::default() } else { aml::PackageBuilder::new() };
                let n = cs.len();
                for (k, c) in cs.into_iter().enumerate() {
                    pb.add_element(c);
                    // looking at a half-filled builder must not change what it emits later
                    if n <= 16 {
                        crate::tables::real::peek(&pb, k + n);
                    }
                }
                self.arena.add(pb)
            }
            Term::VarPackage(n) => {
                let c = self.child(n);
                self.arena.add(aml::VarPackageTerm::new(c))
            }
            Term::BufferData(b) => self.arena.add(aml::BufferData::new(b.clone())),
            Term::BufferTerm(s) => {
                let c = self.child(s);
                self.arena.add(aml::BufferTerm::new(c))
            }
            Term::Uuid(s) => self.arena.add(aml::Uuid::new(s)),
            Term::Eisa(s) => self.arena.add(aml::EISAName::new(s)),
            Term::ResourceTemplate(rs) => {
                let mut cs: Vec<&dyn Aml> = Vec::new();
                for r in rs {
                    let o = self.res(r);
                    if self.preserialise {
                        let b = to_vec(o);
                        cs.push(self.arena.add(Raw(b)));
                    } else {
                        cs.push(o);
                    }
                }
                self.arena.add(aml::ResourceTemplate::new(cs))
            }
            Term::Device(p, v) => {
                let cs = self.children(v);
                self.arena.add(aml::Device::new(mk_path(p), cs))
            }
            Term::Scope(p, v) => {
                let cs = self.children(v);
                self.arena.add(aml::Scope::new(mk_path(p), cs))
            }
            Term::ScopeRaw(p, v) => {
                let mut bytes = Vec::new();
                for c in v {
                    let o = self.obj(c);
                    o.to_aml_bytes(&mut bytes);
                }
                self.arena.add(Raw(aml::Scope::raw(mk_path(p), bytes)))
            }
            Term::Method { path, args, serialized, body } => {
                let cs = self.children(body);
                self.arena.add(aml::Method::new(mk_path(path), *args, *serialized, cs))
            }
            Term::MethodCall(p, a) => {
                let cs = self.children(a);
                self.arena.add(aml::MethodCall::new(mk_path(p), cs))
            }
            Term::Field { path, access, lock, update, entries } => {
                let es = entries
                    .iter()
                    .map(|e| match e {
                        FieldE::Named(n, w) => aml::FieldEntry::Named(*n, *w),
                        FieldE::Reserved(w) => aml::FieldEntry::Reserved(*w),
                    })
                    .collect();
                self.arena.add(aml::Field::new(
                    mk_path(path),
                    field_access(*access),
                    if *lock == 0 { aml::FieldLockRule::NoLock } else { aml::FieldLockRule::Lock },
                    match update {
                        0 => aml::FieldUpdateRule::Preserve,
                        1 => aml::FieldUpdateRule::WriteAsOnes,
                        _ => aml::FieldUpdateRule::WriteAsZeroes,
                    },
                    es,
                ))
            }
            Term::OpRegion { path, space, offset, length } => {
                let o = self.child(offset);
                let l = self.child(length);
                self.arena.add(aml::OpRegion::new(mk_path(path), op_region_space(*space), o, l))
            }
            Term::If(p, b) => {
                let pc = self.child(p);
                let cs = self.children(b);
                self.arena.add(aml::If::new(pc, cs))
            }
            Term::Else(b) => {
                let cs = self.children(b);
                self.arena.add(aml::Else::new(cs))
            }
            Term::While(p, b) => {
                let pc = self.child(p);
                let cs = self.children(b);
                self.arena.add(aml::While::new(pc, cs))
            }
            Term::Cmp(k, a, b) => {
                let l = self.child(a);
                let r = self.child(b);
                match k {
                    0 => self.arena.add(aml::Equal::new(l, r)),
                    1 => self.arena.add(aml::LessThan::new(l, r)),
                    2 => self.arena.add(aml::GreaterThan::new(l, r)),
                    3 => self.arena.add(aml::NotEqual::new(l, r)),
                    4 => self.arena.add(aml::GreaterEqual::new(l, r)),
                    _ => self.arena.add(aml::LessEqual::new(l, r)),
                }
            }
            Term::Arg(n) => self.arena.add(aml::Arg(*n)),
            Term::Local(n) => self.arena.add(aml::Local(*n)),
            Term::Store(name, value) => {
                let n = self.child(name);
                let v = self.child(value);
                self.arena.add(aml::Store::new(n, v))
            }
            Term::Mutex(p, s) => self.arena.add(aml::Mutex::new(mk_path(p), *s)),
            Term::Acquire(p, t) => self.arena.add(aml::Acquire::new(mk_path(p), *t)),
            Term::Release(p) => self.arena.add(aml::Release::new(mk_path(p))),
            Term::Notify(o, v) => {
                let oc = self.child(o);
                let vc = self.child(v);
                self.arena.add(aml::Notify::new(oc, vc))
            }
            Term::Unary(k, a) => {
                let c = self.child(a);
                match k {
                    0 => self.arena.add(aml::ObjectType::new(c)),
                    1 => self.arena.add(aml::SizeOf::new(c)),
                    2 => self.arena.add(aml::Return::new(c)),
                    _ => self.arena.add(aml::DeRefOf::new(c)),
                }
            }
            Term::Binary(k, target, a, b) => {
                let t = self.child(target);
                let x = self.child(a);
                let y = self.child(b);
                match k {
                    0 => self.arena.add(aml::Add::new(t, x, y)),
                    1 => self.arena.add(aml::Concat::new(t, x, y)),
                    2 => self.arena.add(aml::Subtract::new(t, x, y)),
                    3 => self.arena.add(aml::Multiply::new(t, x, y)),
                    4 => self.arena.add(aml::ShiftLeft::new(t, x, y)),
                    5 => self.arena.add(aml::ShiftRight::new(t, x, y)),
                    6 => self.arena.add(aml::And::new(t, x, y)),
                    7 => self.arena.add(aml::Nand::new(t, x, y)),
                    8 => self.arena.add(aml::Or::new(t, x, y)),
                    9 => self.arena.add(aml::Nor::new(t, x, y)),
                    10 => self.arena.add(aml::Xor::new(t, x, y)),
                    11 => self.arena.add(aml::ConcatRes::new(t, x, y)),
                    12 => self.arena.add(aml::Mod::new(t, x, y)),
                    13 => self.arena.add(aml::Index::new(t, x, y)),
                    14 => self.arena.add(aml::ToString::new(t, x, y)),
                    15 => self.arena.add(aml::CreateDWordField::new(t, x, y)),
                    _ => self.arena.add(aml::CreateQWordField::new(t, x, y)),
                }
            }
            Term::Convert(k, target, a) => {
                let t = self.child(target);
                let x = self.child(a);
                match k {
                    0 => self.arena.add(aml::ToBuffer::new(t, x)),
                    _ => self.arena.add(aml::ToInteger::new(t, x)),
                }
            }
            Term::CreateField { name, source, bit_index, bit_num } => {
                let n = self.child(name);
                let s = self.child(source);
                let i = self.child(bit_index);
                let b = self.child(bit_num);
                self.arena.add(aml::CreateField::new(n, s, i, b))
            }
            Term::Mid { source, index, length, result } => {
                let s = self.child(source);
                let i = self.child(index);
                let l = self.child(length);
                let r = self.child(result);
                self.arena.add(aml::Mid::new(s, i, l, r))
            }
            Term::PowerResource { path, level, order, body } => {
                let cs = self.children(body);
                self.arena.add(aml::PowerResource::new(mk_path(path), *level, *order, cs))
            }
        }
    }
}

/// Build `t` through the real crate and serialise it.
pub fn build_bytes(t: &Term, preserialise: bool) -> Vec<u8> {
    let mut b = Builder::new(preserialise);
    let o = b.obj(t);
    let bytes = to_vec(o);
    drop(b);
    bytes
}

/// Build `t` and hand the real top-level object to `f` (for sink experiments).
pub fn with_object<R>(t: &Term, f: impl FnOnce(&dyn Aml) -> R) -> R {
    let mut b = Builder::new(false);
    let o = b.obj(t);
    let r = f(o);
    drop(b);
    r
}
