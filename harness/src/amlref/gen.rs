//! Random AML term trees and boundary-sized bodies.

use super::term::*;
use crate::prng::Rng;

const LEAD: &[u8] = b"ABCDEFGHIJKLMNOPQRSTUVWXYZ_";
const REST: &[u8] = b"ABCDEFGHIJKLMNOPQRSTUVWXYZ_0123456789";

pub fn gen_seg(r: &mut Rng) -> [u8; 4] {
    let mut s = [*r.pick(LEAD), *r.pick(REST), *r.pick(REST), *r.pick(REST)];
    if &s[..3] == b"CAL" {
        s[0] = b'X'; // CALn names are reserved for method invocations with n arguments
    }
    s
}

pub fn gen_path(r: &mut Rng) -> PathT {
    let n = match r.below(10) {
        0..=4 => 1,
        5..=6 => 2,
        7 => 3,
        8 => 4,
        _ => 1 + r.below(8) as usize,
    };
    PathT { root: r.chance(1, 4), segs: (0..n).map(|_| gen_seg(r)).collect() }
}

/// Path whose last segment is CALn: an invocation target with n arguments.
pub fn gen_call_path(r: &mut Rng, n: usize) -> PathT {
    let mut p = gen_path(r);
    let last = p.segs.len() - 1;
    p.segs[last] = [b'C', b'A', b'L', b'0' + n as u8];
    p
}

pub fn call_arity(p: &PathT) -> Option<usize> {
    let l = p.segs.last()?;
    if &l[..3] == b"CAL" && l[3].is_ascii_digit() {
        Some((l[3] - b'0') as usize)
    } else {
        None
    }
}

pub const STATIC_STRS: [&str; 12] = ["", "A", "ACPI", "PNP0A08", "Hello, world", "\x01\x7f", "0123456789abcdef0123456789abcdef0123456789abcdef0123456789abcdef", "x", "_SB_", "\\", " ", "~!@#$%^&*()"];

pub fn gen_string(r: &mut Rng) -> String {
    let n = match r.below(6) {
        0 => 0,
        1 => 1,
        _ => r.below(24) as usize,
    };
    (0..n).map(|_| (1 + r.below(0x7f) as u8) as char).collect()
}

pub fn gen_eisa(r: &mut Rng) -> String {
    let mut s = String::new();
    for _ in 0..3 {
        s.push((b'A' + r.below(26) as u8) as char);
    }
    for _ in 0..4 {
        s.push(*r.pick(b"0123456789ABCDEF") as char);
    }
    s
}

pub fn gen_uuid(r: &mut Rng) -> String {
    let mut s = String::new();
    let lower = r.bool();
    for i in 0..36 {
        if i == 8 || i == 13 || i == 18 || i == 23 {
            s.push('-');
        } else {
            let c = *r.pick(b"0123456789ABCDEF") as char;
            s.push(if lower { c.to_ascii_lowercase() } else { c });
        }
    }
    s
}

pub fn gen_int(r: &mut Rng) -> Term {
    match r.below(8) {
        0 => Term::Zero,
        1 => Term::One,
        2 => Term::Ones,
        3 => Term::U8(r.u8b()),
        4 => Term::U16(r.u16b()),
        5 => Term::U32(r.u32b()),
        6 => Term::U64(r.u64b()),
        _ => Term::Usize(r.u64b() as usize),
    }
}

/// Bring a descriptor into the domain C10 states ("all argument values with minimum <= maximum and a
/// representable range size"): I/O port ranges are ordered, and a fixed 32-bit memory range ends within
/// the 32-bit address space. Nothing promises that a descriptor outside it is accepted.
pub fn in_domain(res: Res) -> Res {
    match res {
        Res::Io { min, max, align, len } => Res::Io { min: min.min(max), max: min.max(max), align, len },
        Res::Mem32 { rw, base, len } => {
            let base = if base as u64 + len as u64 > 1 << 32 { ((1u64 << 32) - len as u64) as u32 } else { base };
            Res::Mem32 { rw, base, len }
        }
        o => o,
    }
}

pub fn gen_res(r: &mut Rng) -> Res {
    in_domain(gen_res_any(r))
}

fn gen_res_any(r: &mut Rng) -> Res {
    match r.below(7) {
        0 => Res::Mem32 { rw: r.bool(), base: r.u32b(), len: r.u32b() },
        1 => Res::Io { min: r.u16b(), max: r.u16b(), align: r.u8b(), len: r.u8b() },
        2 => Res::Irq { consumer: r.bool(), edge: r.bool(), low: r.bool(), shared: r.bool(), num: r.u32b() },
        3 => Res::Reg(GasArgEq { space: r.below(13) as u8, width: r.u8b(), offset: r.u8b(), access: r.below(5) as u8, addr: r.u64b() }),
        _ => {
            let w = match r.below(3) {
                0 => AsWidth::W16,
                1 => AsWidth::W32,
                _ => AsWidth::W64,
            };
            let bits = match w {
                AsWidth::W16 => 16,
                AsWidth::W32 => 32,
                AsWidth::W64 => 64,
            };
            let mask = if bits == 64 { u64::MAX } else { (1u64 << bits) - 1 };
            let a = r.biased(bits);
            let b = r.biased(bits);
            let (mut min, max) = if a <= b { (a, b) } else { (b, a) };
            if min == 0 && max == mask {
                min = 1; // the full range has no representable size: C18's business
            }
            let ty = r.below(3) as u8;
            Res::AddrSpace {
                w,
                ty,
                cache: if ty == 0 { r.below(4) as u8 } else { 0 },
                rw: ty == 0 && r.bool(),
                min,
                max,
                trans: if ty != 2 && r.bool() { Some(r.biased(bits)) } else { None },
            }
        }
    }
}

fn leaf(r: &mut Rng) -> Term {
    match r.below(14) {
        0..=3 => gen_int(r),
        4 => Term::Str(gen_string(r)),
        5 => Term::StaticStr(r.pick(&STATIC_STRS).to_string()),
        6 | 7 => Term::Path(gen_path(r)),
        8 => Term::Arg(r.below(7) as u8),
        9 => Term::Local(r.below(8) as u8),
        10 => Term::Eisa(gen_eisa(r)),
        11 => Term::Uuid(gen_uuid(r)),
        12 => {
            let n = r.below(20) as usize;
            Term::BufferData(r.byte_vec(n))
        }
        _ => Term::FieldName(gen_seg(r)),
    }
}

fn list(r: &mut Rng, depth: usize, budget: &mut i64, max: u64) -> Vec<Term> {
    let n = match r.below(6) {
        0 => 0,
        1 => 1,
        _ => r.below(max + 1),
    };
    (0..n).map(|_| gen_term(r, depth, budget)).collect()
}

fn bx(r: &mut Rng, depth: usize, budget: &mut i64) -> Box<Term> {
    Box::new(gen_term(r, depth, budget))
}

pub fn gen_field_entries(r: &mut Rng, max: u64) -> Vec<FieldE> {
    let n = r.below(max + 1) as usize;
    gen_field_entries_n(r, n)
}

/// Exactly `n` field entries.
pub fn gen_field_entries_n(r: &mut Rng, n: usize) -> Vec<FieldE> {
    (0..n)
        .map(|_| {
            let w = match r.below(8) {
                0 => 0,
                1 => 62,
                2 => 63,
                3 => 64,
                4 => 4095,
                5 => 4096,
                6 => r.below(1 << 27) as usize,
                _ => 1 + r.below(64) as usize,
            };
            if r.bool() {
                FieldE::Named(gen_seg(r), w)
            } else {
                FieldE::Reserved(w)
            }
        })
        .collect()
}

/// Random term. `depth` = remaining nesting allowance, `budget` = remaining node allowance.
pub fn gen_term(r: &mut Rng, depth: usize, budget: &mut i64) -> Term {
    *budget -= 1;
    if depth == 0 || *budget <= 0 {
        return leaf(r);
    }
    let d = depth - 1;
    match r.below(44) {
        0..=5 => leaf(r),
        6 => Term::Name(gen_path(r), bx(r, d, budget)),
        7 => Term::Package(list(r, d, budget, 6)),
        8 => Term::PackageBuilder(list(r, d, budget, 6)),
        9 => Term::VarPackage(bx(r, 0, budget)),
        10 => Term::BufferTerm(bx(r, 0, budget)),
        11 => {
            let n = r.below(5);
            Term::ResourceTemplate((0..n).map(|_| gen_res(r)).collect())
        }
        12 => Term::Device(gen_path(r), list(r, d, budget, 5)),
        13 => Term::Scope(gen_path(r), list(r, d, budget, 5)),
        14 => Term::ScopeRaw(gen_path(r), list(r, d, budget, 4)),
        15 | 16 => Term::Method { path: gen_path(r), args: r.below(8) as u8, serialized: r.bool(), body: list(r, d, budget, 6) },
        17 => {
            let n = r.below(8) as usize;
            let p = gen_call_path(r, n);
            Term::MethodCall(p, (0..n).map(|_| gen_term(r, d.min(2), budget)).collect())
        }
        18 => Term::Field { path: gen_path(r), access: r.below(6) as u8, lock: r.below(2) as u8, update: r.below(3) as u8, entries: gen_field_entries(r, 6) },
        19 => Term::OpRegion { path: gen_path(r), space: r.below(10) as u8, offset: bx(r, 0, budget), length: bx(r, 0, budget) },
        20 | 21 => Term::If(bx(r, d.min(2), budget), list(r, d, budget, 4)),
        22 => Term::Else(list(r, d, budget, 4)),
        23 => Term::While(bx(r, d.min(2), budget), list(r, d, budget, 4)),
        24 | 25 => Term::Cmp(r.below(6) as u8, bx(r, d.min(2), budget), bx(r, d.min(2), budget)),
        26 => Term::Store(bx(r, d.min(1), budget), bx(r, d.min(2), budget)),
        27 => Term::Mutex(gen_path(r), r.u8b()),
        28 => Term::Acquire(gen_path(r), r.u16b()),
        29 => Term::Release(gen_path(r)),
        30 => Term::Notify(bx(r, d.min(1), budget), bx(r, d.min(1), budget)),
        31 | 32 => Term::Unary(r.below(4) as u8, bx(r, d.min(2), budget)),
        33..=37 => Term::Binary(r.below(17) as u8, bx(r, d.min(1), budget), bx(r, d.min(2), budget), bx(r, d.min(2), budget)),
        38 => Term::Convert(r.below(2) as u8, bx(r, d.min(1), budget), bx(r, d.min(2), budget)),
        39 => Term::CreateField { name: bx(r, 0, budget), source: bx(r, d.min(1), budget), bit_index: bx(r, d.min(1), budget), bit_num: bx(r, d.min(1), budget) },
        40 => Term::Mid { source: bx(r, d.min(1), budget), index: bx(r, d.min(1), budget), length: bx(r, d.min(1), budget), result: bx(r, d.min(1), budget) },
        41 => Term::PowerResource { path: gen_path(r), level: r.u8b(), order: r.u16b(), body: list(r, d, budget, 4) },
        _ => Term::Package(list(r, d, budget, 3)),
    }
}

pub const PREFIXED_KINDS: [&str; 15] =
    ["Package", "PackageBuilder", "VarPackageTerm", "ResourceTemplate", "Device", "Scope", "Scope::raw", "Method", "Field", "If", "Else", "While", "BufferTerm", "BufferData", "PowerResource"];

/// A length-prefixed object of kind `k` (index into PREFIXED_KINDS) whose body carries `pad`
/// filler bytes, used to walk the body size across PkgLength width boundaries.
pub fn padded(k: usize, pad: usize, r: &mut Rng) -> Term {
    padded_with_path(k, pad, r, false, 1)
}

/// As `padded`, with the object's own name path of the given shape (where the kind has one).
pub fn padded_with_path(k: usize, pad: usize, r: &mut Rng, root: bool, nseg: usize) -> Term {
    // filler children: a BufferData whose payload is `pad` bytes (adds its own few header bytes);
    // for odd `pad` additionally preceded by integer constants of every width delivered straight to
    // the parent's sink (word/dword/qword entry points rather than one pre-assembled slice)
    let path = PathT { root, segs: (0..nseg).map(|_| gen_seg(r)).collect() };
    if pad % 2 == 1 && matches!(k, 0 | 1 | 4 | 5 | 6 | 7 | 9 | 10 | 11 | 14) {
        let ints = vec![Term::U64(0x1_0000_0000 + pad as u64), Term::U32(0x1_0000 + pad as u32), Term::U16(0x100 + (pad as u16 & 0xff)), Term::U64(u64::MAX - pad as u64)];
        let mut body = ints;
        body.push(Term::BufferData(vec![0x5A; pad.saturating_sub(27)]));
        return match k {
            0 => Term::Package(body),
            1 => Term::PackageBuilder(body),
            4 => Term::Device(path, body),
            5 => Term::Scope(path, body),
            6 => Term::ScopeRaw(path, body),
            7 => Term::Method { path, args: 1, serialized: false, body },
            9 => Term::If(Box::new(Term::U64(0xFFFF_FFFF_0000_0000 | pad as u64)), body),
            10 => Term::Else(body),
            11 => Term::While(Box::new(Term::Cmp(1, Box::new(Term::Local(0)), Box::new(Term::U64(1 << 40)))), body),
            _ => Term::PowerResource { path, level: 2, order: 3, body },
        };
    }
    let filler = || Term::BufferData(vec![0xA5; pad]);
    match k {
        0 => Term::Package(vec![filler()]),
        1 => Term::PackageBuilder(vec![filler()]),
        2 => Term::VarPackage(Box::new(Term::Str("s".repeat(pad)))),
        3 => {
            // 12-byte Memory32Fixed descriptors plus 8-byte IO descriptors to reach any size >= 0
            // preceded by (pad mod 4) 9-byte extended-interrupt descriptors so that odd totals (e.g. the
            // 253 descriptor bytes that make the BufferSize integer exactly 255) are reached as well
            let mut v = Vec::new();
            let mut left = pad;
            let odd = left % 4;
            if left >= 9 * odd {
                for i in 0..odd {
                    v.push(Res::Irq { consumer: true, edge: i % 2 == 0, low: false, shared: i == 2, num: left as u32 });
                    left -= 9;
                }
            }
            while left >= 12 && left != 16 && left != 8 {
                v.push(Res::Mem32 { rw: true, base: left as u32, len: 1 });
                left -= 12;
            }
            while left >= 8 {
                v.push(Res::Io { min: 0, max: left as u16, align: 1, len: 1 });
                left -= 8;
            }
            Term::ResourceTemplate(v)
        }
        4 => Term::Device(path, vec![filler()]),
        5 => Term::Scope(path, vec![filler()]),
        6 => Term::ScopeRaw(path, vec![filler()]),
        7 => Term::Method { path, args: 2, serialized: true, body: vec![filler()] },
        8 => {
            // field list bytes: named entries are 5 bytes each with small widths
            let n = pad / 5;
            let mut es: Vec<FieldE> = (0..n).map(|i| FieldE::Named(*b"FLD0", 1 + (i % 60))).collect();
            for _ in 0..pad % 5 {
                es.push(FieldE::Reserved(1)); // 2 bytes each; exact size is not needed, coverage of the sweep is
            }
            Term::Field { path, access: 1, lock: 0, update: 0, entries: es }
        }
        9 => Term::If(Box::new(Term::One), vec![filler()]),
        10 => Term::Else(vec![filler()]),
        11 => Term::While(Box::new(Term::Zero), vec![filler()]),
        12 => Term::BufferTerm(Box::new(Term::Str("b".repeat(pad)))),
        13 => filler(),
        _ => Term::PowerResource { path, level: 1, order: 2, body: vec![filler()] },
    }
}
