pub mod build;
pub mod gen;
pub mod parse;
pub mod resref;
pub mod term;
pub mod vectors;
