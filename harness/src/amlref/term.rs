//! The harness's abstract AML term language (one variant per exported crate constructor)
//! and the canonical parse tree `P` that the independent parser produces.

use crate::tables::ops::GasArg;

#[derive(Clone, Debug, PartialEq, Eq, Hash)]
pub struct PathT {
    pub root: bool,
    pub segs: Vec<[u8; 4]>,
}

impl PathT {
    pub fn one(seg: &[u8; 4]) -> Self {
        PathT { root: false, segs: vec![*seg] }
    }
    /// The dotted string form the crate's `Path::new` accepts.
    pub fn to_string(&self) -> String {
        let mut s = String::new();
        if self.root {
            s.push('\\');
        }
        for (i, seg) in self.segs.iter().enumerate() {
            if i > 0 {
                s.push('.');
            }
            for c in seg {
                s.push(*c as char);
            }
        }
        s
    }
}

#[derive(Clone, Copy, Debug, PartialEq)]
pub enum AsWidth {
    W16,
    W32,
    W64,
}

#[derive(Clone, Debug, PartialEq)]
pub enum Res {
    Mem32 { rw: bool, base: u32, len: u32 },
    Io { min: u16, max: u16, align: u8, len: u8 },
    Irq { consumer: bool, edge: bool, low: bool, shared: bool, num: u32 },
    Reg(GasArgEq),
    /// ty: 0 memory, 1 io, 2 bus; cache 0..=3 and rw only for memory
    AddrSpace { w: AsWidth, ty: u8, cache: u8, rw: bool, min: u64, max: u64, trans: Option<u64> },
}

/// GasArg with PartialEq (tables::ops::GasArg stays minimal)
#[derive(Clone, Debug, PartialEq)]
pub struct GasArgEq {
    pub space: u8,
    pub width: u8,
    pub offset: u8,
    pub access: u8,
    pub addr: u64,
}
impl GasArgEq {
    pub fn to_arg(&self) -> GasArg {
        GasArg { space: self.space, width: self.width, offset: self.offset, access: self.access, addr: self.addr }
    }
}

#[derive(Clone, Debug, PartialEq)]
pub enum FieldE {
    Named([u8; 4], usize),
    Reserved(usize),
}

#[derive(Clone, Debug, PartialEq)]
pub enum Term {
    Zero,
    One,
    Ones,
    U8(u8),
    U16(u16),
    U32(u32),
    U64(u64),
    Usize(usize),
    /// owned String carrier
    Str(String),
    /// &'static str carrier (leaked by the builder)
    StaticStr(String),
    Path(PathT),
    /// Name::new_field_name
    FieldName([u8; 4]),
    /// an object that serialises to no bytes at all (`Name::new_field_name("")`); only used where
    /// construction paths are compared byte for byte, never parsed
    Empty,
    Name(PathT, Box<Term>),
    Package(Vec<Term>),
    PackageBuilder(Vec<Term>),
    VarPackage(Box<Term>),
    BufferData(Vec<u8>),
    BufferTerm(Box<Term>),
    Uuid(String),
    Eisa(String),
    ResourceTemplate(Vec<Res>),
    Device(PathT, Vec<Term>),
    Scope(PathT, Vec<Term>),
    /// built through Scope::raw from the children's serialised bytes
    ScopeRaw(PathT, Vec<Term>),
    Method { path: PathT, args: u8, serialized: bool, body: Vec<Term> },
    MethodCall(PathT, Vec<Term>),
    Field { path: PathT, access: u8, lock: u8, update: u8, entries: Vec<FieldE> },
    OpRegion { path: PathT, space: u8, offset: Box<Term>, length: Box<Term> },
    If(Box<Term>, Vec<Term>),
    Else(Vec<Term>),
    While(Box<Term>, Vec<Term>),
    /// 0 Equal 1 LessThan 2 GreaterThan 3 NotEqual 4 GreaterEqual 5 LessEqual
    Cmp(u8, Box<Term>, Box<Term>),
    Arg(u8),
    Local(u8),
    /// Store::new(name, value)
    Store(Box<Term>, Box<Term>),
    Mutex(PathT, u8),
    Acquire(PathT, u16),
    Release(PathT),
    Notify(Box<Term>, Box<Term>),
    /// 0 ObjectType 1 SizeOf 2 Return 3 DeRefOf
    Unary(u8, Box<Term>),
    /// index into BINARY_OPS; (target, a, b) in the crate's constructor order
    Binary(u8, Box<Term>, Box<Term>, Box<Term>),
    /// 0 ToBuffer 1 ToInteger; (target, a)
    Convert(u8, Box<Term>, Box<Term>),
    CreateField { name: Box<Term>, source: Box<Term>, bit_index: Box<Term>, bit_num: Box<Term> },
    Mid { source: Box<Term>, index: Box<Term>, length: Box<Term>, result: Box<Term> },
    PowerResource { path: PathT, level: u8, order: u16, body: Vec<Term> },
}

/// (name, AML opcode from ACPI 6.5 §20.3 opcode table) in the order of the crate's binary_op! list
pub const BINARY_OPS: [(&str, u8); 17] = [
    ("Add", 0x72),
    ("Concat", 0x73),
    ("Subtract", 0x74),
    ("Multiply", 0x77),
    ("ShiftLeft", 0x79),
    ("ShiftRight", 0x7A),
    ("And", 0x7B),
    ("Nand", 0x7C),
    ("Or", 0x7D),
    ("Nor", 0x7E),
    ("Xor", 0x7F),
    ("ConcatRes", 0x84),
    ("Mod", 0x85),
    ("Index", 0x88),
    ("ToString", 0x9C),
    ("CreateDWordField", 0x8A),
    ("CreateQWordField", 0x8F),
];
pub const UNARY_OPS: [(&str, u8); 4] = [("ObjectType", 0x8E), ("SizeOf", 0x87), ("Return", 0xA4), ("DeRefOf", 0x83)];
pub const CONVERT_OPS: [(&str, u8); 2] = [("ToBuffer", 0x96), ("ToInteger", 0x99)];

impl Term {
    pub fn ctor_name(&self) -> &'static str {
        match self {
            Term::Zero => "ZERO",
            Term::One => "ONE",
            Term::Ones => "ONES",
            Term::U8(_) => "u8",
            Term::U16(_) => "u16",
            Term::U32(_) => "u32",
            Term::U64(_) => "u64",
            Term::Usize(_) => "usize",
            Term::Str(_) => "String",
            Term::StaticStr(_) => "&'static str",
            Term::Path(_) => "Path",
            Term::FieldName(_) => "Name::new_field_name",
            Term::Empty => "Name::new_field_name(\"\")",
            Term::Name(..) => "Name",
            Term::Package(_) => "Package",
            Term::PackageBuilder(_) => "PackageBuilder",
            Term::VarPackage(_) => "VarPackageTerm",
            Term::BufferData(_) => "BufferData",
            Term::BufferTerm(_) => "BufferTerm",
            Term::Uuid(_) => "Uuid",
            Term::Eisa(_) => "EISAName",
            Term::ResourceTemplate(_) => "ResourceTemplate",
            Term::Device(..) => "Device",
            Term::Scope(..) => "Scope",
            Term::ScopeRaw(..) => "Scope::raw",
            Term::Method { .. } => "Method",
            Term::MethodCall(..) => "MethodCall",
            Term::Field { .. } => "Field",
            Term::OpRegion { .. } => "OpRegion",
            Term::If(..) => "If",
            Term::Else(_) => "Else",
            Term::While(..) => "While",
            Term::Cmp(k, ..) => ["Equal", "LessThan", "GreaterThan", "NotEqual", "GreaterEqual", "LessEqual"][*k as usize],
            Term::Arg(_) => "Arg",
            Term::Local(_) => "Local",
            Term::Store(..) => "Store",
            Term::Mutex(..) => "Mutex",
            Term::Acquire(..) => "Acquire",
            Term::Release(_) => "Release",
            Term::Notify(..) => "Notify",
            Term::Unary(k, _) => UNARY_OPS[*k as usize].0,
            Term::Binary(k, ..) => BINARY_OPS[*k as usize].0,
            Term::Convert(k, ..) => CONVERT_OPS[*k as usize].0,
            Term::CreateField { .. } => "CreateField",
            Term::Mid { .. } => "Mid",
            Term::PowerResource { .. } => "PowerResource",
        }
    }
    pub fn node_count(&self) -> usize {
        let mut n = 1;
        self.for_children(&mut |c| n += c.node_count());
        n
    }
    pub fn depth(&self) -> usize {
        let mut d = 0;
        self.for_children(&mut |c| d = d.max(c.depth()));
        d + 1
    }
    pub fn for_children(&self, f: &mut dyn FnMut(&Term)) {
        match self {
            Term::Name(_, a) | Term::VarPackage(a) | Term::BufferTerm(a) | Term::Unary(_, a) => f(a),
            Term::Package(v) | Term::PackageBuilder(v) | Term::Else(v) => v.iter().for_each(|c| f(c)),
            Term::Device(_, v) | Term::Scope(_, v) | Term::ScopeRaw(_, v) | Term::MethodCall(_, v) => v.iter().for_each(|c| f(c)),
            Term::Method { body, .. } | Term::PowerResource { body, .. } => body.iter().for_each(|c| f(c)),
            Term::OpRegion { offset, length, .. } => {
                f(offset);
                f(length)
            }
            Term::If(p, v) | Term::While(p, v) => {
                f(p);
                v.iter().for_each(|c| f(c))
            }
            Term::Cmp(_, a, b) | Term::Store(a, b) | Term::Notify(a, b) | Term::Convert(_, a, b) => {
                f(a);
                f(b)
            }
            Term::Binary(_, a, b, c) => {
                f(a);
                f(b);
                f(c)
            }
            Term::CreateField { name, source, bit_index, bit_num } => {
                f(name);
                f(source);
                f(bit_index);
                f(bit_num)
            }
            Term::Mid { source, index, length, result } => {
                f(source);
                f(index);
                f(length);
                f(result)
            }
            _ => {}
        }
    }
    pub fn visit(&self, f: &mut dyn FnMut(&Term)) {
        f(self);
        self.for_children(&mut |c| c.visit(f));
    }
}

/// Canonical parse tree produced by the independent parser (ACPI 6.5 §20.2 grammar).
#[derive(Clone, Debug, PartialEq)]
pub enum P {
    /// width: 0 = ZeroOp/OneOp, else 1/2/4/8 data bytes after the prefix
    Int { v: u64, width: u8 },
    Ones,
    Str(Vec<u8>),
    NameRef(PathT),
    Call(PathT, Vec<P>),
    Name(PathT, Box<P>),
    Scope(PathT, Vec<P>),
    Device(PathT, Vec<P>),
    Method { path: PathT, flags: u8, body: Vec<P> },
    Buffer { size: Box<P>, bytes: Vec<u8> },
    Package { n: u8, elems: Vec<P> },
    VarPackage { n: Box<P>, elems: Vec<P> },
    Field { path: PathT, flags: u8, entries: Vec<(Option<[u8; 4]>, u64)> },
    OpRegion { path: PathT, space: u8, off: Box<P>, len: Box<P> },
    If(Box<P>, Vec<P>),
    Else(Vec<P>),
    While(Box<P>, Vec<P>),
    /// opcode 0x93/0x94/0x95, preceded by LNot or not
    Logic { op: u8, not: bool, a: Box<P>, b: Box<P> },
    Arg(u8),
    Local(u8),
    /// Store src dst (grammar order)
    Store(Box<P>, Box<P>),
    Mutex(PathT, u8),
    Acquire(PathT, u16),
    Release(PathT),
    Notify(Box<P>, Box<P>),
    Op1(u8, Box<P>),
    /// op a b target
    Op3(u8, Box<P>, Box<P>, Box<P>),
    /// op a target
    Op2(u8, Box<P>, Box<P>),
    CreateField { src: Box<P>, idx: Box<P>, nbits: Box<P>, name: Box<P> },
    Mid { src: Box<P>, idx: Box<P>, len: Box<P>, target: Box<P> },
    PowerRes { path: PathT, level: u8, order: u16, body: Vec<P> },
}

pub fn narrowest(v: u64) -> u8 {
    if v <= 1 {
        0
    } else if v <= 0xFF {
        1
    } else if v <= 0xFFFF {
        2
    } else if v <= 0xFFFF_FFFF {
        4
    } else {
        8
    }
}

pub fn int(v: u64) -> P {
    P::Int { v, width: narrowest(v) }
}

/// ACPI EISA-id compression written from the specification text (§19.3.4 ASL macro EISAID):
/// three 5-bit letters (A=1) then four hex nibbles, stored big-endian in a dword.
pub fn eisa_value(s: &str) -> u32 {
    let b = s.as_bytes();
    let l = |c: u8| (c - b'A' + 1) as u32 & 0x1f;
    let h = |c: u8| (c as char).to_digit(16).unwrap();
    let be: u32 = (l(b[0]) << 26) | (l(b[1]) << 21) | (l(b[2]) << 16) | (h(b[3]) << 12) | (h(b[4]) << 8) | (h(b[5]) << 4) | h(b[6]);
    // the compressed id is stored with its most significant byte first
    u32::from_le_bytes(be.to_be_bytes())
}

/// ToUUID byte order (§19.6.142): aabbccdd-eeff-gghh-iijj-kkllmmnnoopp ->
/// dd cc bb aa ff ee hh gg ii jj kk ll mm nn oo pp
pub fn uuid_bytes(s: &str) -> Vec<u8> {
    let hex: Vec<u8> = s.bytes().filter(|c| *c != b'-').map(|c| (c as char).to_digit(16).unwrap() as u8).collect();
    let byte = |i: usize| (hex[2 * i] << 4) | hex[2 * i + 1];
    let order = [3usize, 2, 1, 0, 5, 4, 7, 6, 8, 9, 10, 11, 12, 13, 14, 15];
    order.iter().map(|i| byte(*i)).collect()
}

/// Term -> the canonical tree the parser must recover.
pub fn canon(t: &Term) -> P {
    let bx = |t: &Term| Box::new(canon(t));
    let list = |v: &Vec<Term>| v.iter().map(canon).collect::<Vec<P>>();
    match t {
        Term::Zero => int(0),
        Term::One => int(1),
        Term::Ones => P::Ones,
        Term::U8(v) => int(*v as u64),
        Term::U16(v) => int(*v as u64),
        Term::U32(v) => int(*v as u64),
        Term::U64(v) => int(*v),
        Term::Usize(v) => int(*v as u64),
        Term::Str(s) | Term::StaticStr(s) => P::Str(s.as_bytes().to_vec()),
        Term::Path(p) => P::NameRef(p.clone()),
        Term::FieldName(s) => P::NameRef(PathT::one(s)),
        Term::Empty => P::Str(Vec::new()), // never compared: Empty is not used in parsed workloads
        Term::Name(p, d) => P::Name(p.clone(), bx(d)),
        Term::Package(v) | Term::PackageBuilder(v) => P::Package { n: v.len() as u8, elems: list(v) },
        Term::VarPackage(n) => P::VarPackage { n: bx(n), elems: vec![] },
        Term::BufferData(b) => P::Buffer { size: Box::new(int(b.len() as u64)), bytes: b.clone() },
        Term::BufferTerm(s) => P::Buffer { size: bx(s), bytes: vec![] },
        Term::Uuid(s) => P::Buffer { size: Box::new(int(16)), bytes: uuid_bytes(s) },
        Term::Eisa(s) => int(eisa_value(s) as u64),
        Term::ResourceTemplate(rs) => {
            let bytes = super::resref::template_payload(rs);
            P::Buffer { size: Box::new(int(bytes.len() as u64)), bytes }
        }
        Term::Device(p, v) => P::Device(p.clone(), list(v)),
        Term::Scope(p, v) | Term::ScopeRaw(p, v) => P::Scope(p.clone(), list(v)),
        Term::Method { path, args, serialized, body } => P::Method { path: path.clone(), flags: (*args & 7) | ((*serialized as u8) << 3), body: list(body) },
        Term::MethodCall(p, a) => {
            if a.is_empty() {
                P::NameRef(p.clone())
            } else {
                P::Call(p.clone(), list(a))
            }
        }
        Term::Field { path, access, lock, update, entries } => P::Field {
            path: path.clone(),
            flags: *access | (*lock << 4) | (*update << 5),
            entries: entries
                .iter()
                .map(|e| match e {
                    FieldE::Named(n, w) => (Some(*n), *w as u64),
                    FieldE::Reserved(w) => (None, *w as u64),
                })
                .collect(),
        },
        Term::OpRegion { path, space, offset, length } => P::OpRegion { path: path.clone(), space: *space, off: bx(offset), len: bx(length) },
        Term::If(p, b) => P::If(bx(p), list(b)),
        Term::Else(b) => P::Else(list(b)),
        Term::While(p, b) => P::While(bx(p), list(b)),
        Term::Cmp(k, a, b) => {
            // LEqual 93, LGreater 94, LLess 95; NotEqual = LNot LEqual, LessEqual = LNot LGreater,
            // GreaterEqual = LNot LLess (ACPI 6.5 §20.2.5.4)
            let (op, not) = match k {
                0 => (0x93, false),
                1 => (0x95, false),
                2 => (0x94, false),
                3 => (0x93, true),
                4 => (0x95, true),
                _ => (0x94, true),
            };
            P::Logic { op, not, a: bx(a), b: bx(b) }
        }
        Term::Arg(n) => P::Arg(*n),
        Term::Local(n) => P::Local(*n),
        Term::Store(name, value) => P::Store(bx(value), bx(name)),
        Term::Mutex(p, s) => P::Mutex(p.clone(), *s),
        Term::Acquire(p, t) => P::Acquire(p.clone(), *t),
        Term::Release(p) => P::Release(p.clone()),
        Term::Notify(o, v) => P::Notify(bx(o), bx(v)),
        Term::Unary(k, a) => P::Op1(UNARY_OPS[*k as usize].1, bx(a)),
        Term::Binary(k, target, a, b) => P::Op3(BINARY_OPS[*k as usize].1, bx(a), bx(b), bx(target)),
        Term::Convert(k, target, a) => P::Op2(CONVERT_OPS[*k as usize].1, bx(a), bx(target)),
        Term::CreateField { name, source, bit_index, bit_num } => P::CreateField { src: bx(source), idx: bx(bit_index), nbits: bx(bit_num), name: bx(name) },
        Term::Mid { source, index, length, result } => P::Mid { src: bx(source), idx: bx(index), len: bx(length), target: bx(result) },
        Term::PowerResource { path, level, order, body } => P::PowerRes { path: path.clone(), level: *level, order: *order, body: list(body) },
    }
}
