#!/bin/bash
# MANIFEST.setup_cmd: offline build of both profiles of the harness against /repo.
set -e
cd "$(dirname "$0")/harness"
export CARGO_NET_OFFLINE=true
export RUSTFLAGS="--cfg rust_vmm_acpi_tables_verif"
cargo build --offline --profile release --bin verif
cargo build --offline --profile checked --bin verif
echo "setup ok"
